(* C02, "nothing to do": the planner of compaction-auto / compaction-auto-schedule as the code runs it
   (crates/ripd/src/continuities.rs: compaction_cut_points_v1 + the `planned` loops of
   compaction_auto_spawn_job_v1 / compaction_auto_schedule_spawn_job_v1;
   continuity_stream_cache.rs: latest_compaction_checkpoint_before_or_at_seq_v1,
   ensure_compaction_checkpoints_sidecar_best_effort_v1), over the three states the checkpoint cache
   <id>.comp.v1.jsonl can be in, next to the judgement the truth log alone gives.  Definitions only
   (proofs: Proofs/NoopPlanProofs.v).

   Assumed (and required of the store before a case of this model is compared with the code): the full
   sidecar and the messages+runs caches are the projection of the truth stream - only the checkpoint
   cache is free. *)
From RipV Require Import Base.Prelude.

Record pthread := {
  t_msgs : list N;          (* seq of every continuity_message_appended frame of the thread, stream order *)
  t_cps : list (N * N)      (* (to_seq, seq) of every continuity_compaction_checkpoint_created frame *)
}.

Definition PLAN_WINDOW : nat := 32.   (* limit: Some(32): the newest 32 cut points *)

(* ordinals latest_multiple, latest_multiple - stride, ..: at most `fuel`, stops at 0 (saturating_sub) *)
Fixpoint ordinals (fuel : nat) (ord stride : N) : list N :=
  match fuel with
  | O => []
  | S k => if ord =? 0 then [] else ord :: ordinals k (ord - stride) stride
  end.

(* to_seq of every cut point of stride_messages_v1/<stride>, newest first *)
Definition cut_seqs (t : pthread) (stride : N) : list N :=
  if stride =? 0 then []
  else let n := nlen (t_msgs t) in
       flat_map (fun ord => match nth_error (t_msgs t) (N.to_nat (ord - 1)) with
                            | Some s => [s]
                            | None => []
                            end)
                (ordinals PLAN_WINDOW ((n / stride) * stride) stride).

(* "latest checkpoint at or before the cut": greatest to_seq not beyond the cut, ties by greater seq.
   skip_eq = false: the code (`if to_seq > cut { continue }`);
   skip_eq = true : `>=` - the comparison of seeded change C02-6 *)
Definition better (a b : N * N) : bool := (fst b <? fst a) || ((fst a =? fst b) && (snd b <? snd a)).
Fixpoint best_le (skip_eq : bool) (cut : N) (ls : list (N * N)) (acc : option (N * N)) : option (N * N) :=
  match ls with
  | [] => acc
  | e :: r =>
    if (if skip_eq then cut <=? fst e else cut <? fst e) then best_le skip_eq cut r acc
    else best_le skip_eq cut r (match acc with
                                | None => Some e
                                | Some a => if better e a then Some e else Some a
                                end)
  end.

(* the checkpoint cache as the lookup finds it *)
Inductive comp_cache :=
| CAbsent                      (* no file: rebuilt from the full sidecar, then scanned *)
| CUnparsable                  (* torn last line / garbage: the scan errs, the caller replays the stream
                                  and runs its own fallback loop over the checkpoint frames *)
| CLines (ls : list (N * N)).  (* every line parses: answered from these lines as found (no fallback:
                                  the full sidecar is readable) - a zero-byte file is CLines [] *)

Definition lookup (fallback_skip_eq : bool) (t : pthread) (cc : comp_cache) (cut : N) : option (N * N) :=
  match cc with
  | CAbsent => best_le false cut (t_cps t) None
  | CUnparsable => best_le fallback_skip_eq cut (t_cps t) None
  | CLines ls => best_le false cut ls None
  end.

(* how ensure_compaction_checkpoints_sidecar_best_effort_v1 sees the file.  zl = false: `path.exists()` - a
   zero-byte file is a parsable cache without lines (open finding S4c).  zl = true: the file must hold at
   least one byte (the S4c repair) - a zero-byte file counts as absent and is rebuilt from the full sidecar.
   Which of the two the source does is read off it on every run (Gen/Effects.v,
   gen_zero_length_comp_sidecar_is_absent). *)
Definition seen (zl : bool) (cc : comp_cache) : comp_cache :=
  match cc with
  | CLines [] => if zl then CAbsent else cc
  | _ => cc
  end.

Definition hit (cut : N) (o : option (N * N)) : bool :=
  match o with Some a => fst a =? cut | None => false end.

(* already_checkpointed of one cut point, as the code computes it *)
Definition already (fb : bool) (t : pthread) (cc : comp_cache) (cut : N) : bool := hit cut (lookup fb t cc cut).

(* planned: the first max_new cut points that are not already checkpointed *)
Definition planned (fb : bool) (t : pthread) (cc : comp_cache) (stride : N) (max_new : nat) : list N :=
  firstn max_new (filter (fun cut => negb (already fb t cc cut)) (cut_seqs t stride)).

(* ---------- the judgement of the truth log alone (the harness's ref_unplanned) ---------- *)
Definition covered (t : pthread) (cut : N) : bool := existsb (fun e => fst e =? cut) (t_cps t).
Definition unplanned (t : pthread) (stride : N) : list N :=
  filter (fun cut => negb (covered t cut)) (cut_seqs t stride).

(* the cache states today's code answers correctly from *)
Definition coherent (t : pthread) (cc : comp_cache) : Prop :=
  cc = CAbsent \/ cc = CUnparsable \/ cc = CLines (t_cps t).

(* ---------- correspondence case: one auto / auto-schedule / cut-points call ---------- *)
Record case_plan := {
  cp_thread : pthread;
  cp_cache : comp_cache;
  cp_stride : N;
  cp_max_new : N;            (* after the clamp to 1..32 *)
  cp_expect : list N         (* to_seq of the planned cut points the implementation answered *)
}.
Definition model_obs_plan (zl : bool) (c : case_plan) : list N :=
  planned false (cp_thread c) (seen zl (cp_cache c)) (cp_stride c) (N.to_nat (N.min (cp_max_new c) 32)).
Definition check_case_plan (zl : bool) (c : case_plan) : bool := lN_eqb (model_obs_plan zl c) (cp_expect c).
