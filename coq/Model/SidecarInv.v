(* C02: which ids have a cache file.  Definitions only (proofs: Proofs/SidecarInvProofs.v).
   The cache keeps `continuity_streams/<id>.jsonl` for an id; the id reaches `path_for` verbatim from
   the caller.  What keeps File::create away from a path made of a caller-chosen id (`../events` names
   the truth log itself) is that a sidecar is only ever written for an id that some frame IN THE LOG
   carries as its stream id - and those ids are minted by the store (Uuid::new_v4, T1 fact). *)
From RipV Require Import Base.Prelude Model.Frames Model.Log Model.ContStore.

(* some frame of the log carries stream id c *)
Definition names (l : log) (c : N) : Prop := exists f, In f l /\ sid f = c.

Definition SideA (st : state) : Prop := forall c, s_side st c <> None -> names (s_log st) c.

(* + history part: the `event` local of every running call is a frame that is in the log *)
Definition SideInv (st : state) : Prop :=
  SideA st /\ (forall a p f, s_procs st a = Some p -> p_last p = Some f -> In f (s_log st)).

(* replay_events without the emptiness guard (seeded change C02-1) *)
Definition replay_events_unguarded (st : state) (c : N) : option (list frame) * (N -> option (list sline)) :=
  match try_replay c (s_side st c) with
  | Some fs => (Some fs, s_side st)
  | None =>
    if validate (s_log st)
    then let fs := cstream c (s_log st) in (Some fs, upd (s_side st) c (Some (map SGood fs)))
    else (None, s_side st)
  end.
