(* C11 — correspondence entry points of the process-tree model: the waiters regenerated from the source
   (Gen/LockJoin.v).  No proofs. *)
From RipV Require Import Base.Prelude.
From RipV Require Export Model.WsLockTree Gen.LockJoin.

Definition check_tree (c : tcase) : bool :=
  check_tree_with gen_pipes_task_waiter gen_pty_task_waiter gen_shell_tool_waiter c.
Definition tree_obs (c : tcase) : list N :=
  tree_obs_with gen_pipes_task_waiter gen_pty_task_waiter gen_shell_tool_waiter c.
