(* C17 — executable model of the life of one background task (crates/ripd/src/tasks/mod.rs run_task,
   tasks/pipes.rs run_pipes_task): the waiter ("main"), the two output pumps, the child process and a
   cancel request are separate actors; `emit` is atomic (TaskEmitter::emit holds the seq mutex across
   publish/record/append, mod.rs:512-527).  No proofs here (Proofs/TaskLifecycleProofs.v). *)
From RipV Require Import Base.Prelude.

(* frame kinds of a task stream *)
Inductive lev :=
| LSpawned                    (* tool_task_spawned *)
| LRunning                    (* tool_task_status running *)
| LDelta (stream : N)         (* tool_task_output_delta; 0 stdout 1 stderr *)
| LCancelReq                  (* tool_task_cancel_requested *)
| LCancelled                  (* tool_task_cancelled *)
| LStatus (st : N).           (* terminal tool_task_status: 2 exited 3 cancelled 4 failed *)

Definition lev_code (e : lev) : N :=
  match e with
  | LSpawned => 0 | LRunning => 1 | LDelta s => 10 + s | LCancelReq => 2 | LCancelled => 3
  | LStatus st => 20 + st
  end.

(* ---------- the recogniser of the allowed language ----------
     Spawned · Running? · Delta* · (CancelReq · Delta* · Cancelled)? · Status
   with: Status exited only without a cancel, Status cancelled only after Cancelled, Status failed only
   right after Spawned (post-spawn failure: log file / cwd / spawn error) or after Running (wait failed);
   Delta only after Running.  `RDone` is absorbing-rejecting: nothing may follow the terminal frame. *)
Inductive rst :=
| R0            (* nothing yet *)
| RSpawned
| RRunning
| RCancelReq
| RCancelled
| RDone (st : N)
| RBad.

Definition rstep (r : rst) (e : lev) : rst :=
  match r, e with
  | R0, LSpawned => RSpawned
  | RSpawned, LRunning => RRunning
  | RSpawned, LStatus 4 => RDone 4
  | RRunning, LDelta _ => RRunning
  | RRunning, LCancelReq => RCancelReq
  | RRunning, LStatus 2 => RDone 2
  | RRunning, LStatus 4 => RDone 4
  | RCancelReq, LDelta _ => RCancelReq
  | RCancelReq, LCancelled => RCancelled
  | RCancelled, LStatus 3 => RDone 3
  | RCancelled, LStatus 4 => RDone 4
  | _, _ => RBad
  end.

Definition recognise (t : list lev) : rst := fold_left rstep t R0.

Definition r_prefix_ok (r : rst) : bool := match r with RBad => false | _ => true end.
Definition r_complete (r : rst) : bool := match r with RDone _ => true | _ => false end.

(* the spawn-less opening (S12b, repaired): run_task used to fail BEFORE emitting the spawn frame when
   the tool is unsupported, the args do not deserialise, or the artifacts dir cannot be created: the
   whole stream was the single frame `Status failed`. *)
Definition spawnless_failed (t : list lev) : bool :=
  match t with [LStatus 4] => true | _ => false end.

(* ---------- the concurrent system ---------- *)
Inductive mpc :=           (* program counter of the waiter *)
| MStart                   (* before the pre-spawn checks *)
| MSpawnedPc               (* spawn frame emitted; log writers / cwd / Command::spawn next *)
| MSelect                  (* Running emitted, pumps started; select { child.wait, cancel_rx.changed } *)
| MKillWait                (* cancel branch taken: CancelReq emitted, kill sent; child.wait().await *)
| MJoin (cancelled waitok : bool) (* stdout_handle.await; stderr_handle.await *)
| MCancelEmit (waitok : bool)      (* pumps joined, cancel: emit tool_task_cancelled *)
| MFinal (st : N)          (* emit the terminal status *)
| MEnd.

Inductive ppc := PIdle | PRun | PDone.     (* pump: not started / reading / returned *)

Record sys := {
  s_main : mpc;
  s_p0 : ppc; s_p1 : ppc;
  s_child_exited : bool;
  s_cancel_flag : bool;       (* watch channel holds Some(reason) *)
  s_trace : list lev          (* frames in emission order (reverse: newest first) *)
}.

Definition sys0 : sys :=
  {| s_main := MStart; s_p0 := PIdle; s_p1 := PIdle; s_child_exited := false;
     s_cancel_flag := false; s_trace := [] |}.

Inductive act :=
| APrecheckFail            (* unsupported tool / invalid args / artifacts dir *)
| ASpawnFrame              (* emit Spawned *)
| APostSpawnFail           (* writer create / cwd / spawn failed: fail_task *)
| AStartRunning            (* child spawned: emit Running, start both pumps *)
| APumpEmit (i : N)        (* pump i read a chunk whose preview is non-empty: emit Delta *)
| APumpSilent (i : N)      (* pump i read a chunk with an empty preview: append only *)
| APumpEof (i : N)         (* pump i saw EOF / error: returns *)
| AChildExit               (* the process terminates (by itself or by the kill) *)
| ACancel                  (* POST /tasks/{id}/cancel at any moment (also repeated) *)
| AWaitReturns (ok : bool) (* select: child.wait() branch; ok=false: wait failed *)
| ATakeCancel              (* select: cancel_rx.changed() branch: emit CancelReq, kill *)
| AKillWaitReturns (ok : bool)
| AJoined                  (* both pump handles awaited *)
| AEmitCancelled
| AEmitFinal.

Definition emit (s : sys) (e : lev) (m : mpc) : sys :=
  {| s_main := m; s_p0 := s_p0 s; s_p1 := s_p1 s; s_child_exited := s_child_exited s;
     s_cancel_flag := s_cancel_flag s; s_trace := e :: s_trace s |}.

Definition set_main (s : sys) (m : mpc) : sys :=
  {| s_main := m; s_p0 := s_p0 s; s_p1 := s_p1 s; s_child_exited := s_child_exited s;
     s_cancel_flag := s_cancel_flag s; s_trace := s_trace s |}.

Definition pump_of (s : sys) (i : N) : ppc := if i =? 0 then s_p0 s else s_p1 s.
Definition set_pump (s : sys) (i : N) (p : ppc) (tr : list lev) : sys :=
  {| s_main := s_main s; s_p0 := if i =? 0 then p else s_p0 s; s_p1 := if i =? 0 then s_p1 s else p;
     s_child_exited := s_child_exited s; s_cancel_flag := s_cancel_flag s; s_trace := tr |}.

(* one step; None = the action is not enabled in this state *)
Definition step (s : sys) (a : act) : option sys :=
  match a with
  | APrecheckFail => None   (* since the repair of S12b the spawn frame precedes every check: a refused
                               request is APostSpawnFail *)
  | ASpawnFrame => match s_main s with MStart => Some (emit s LSpawned MSpawnedPc) | _ => None end
  | APostSpawnFail => match s_main s with MSpawnedPc => Some (emit s (LStatus 4) MEnd) | _ => None end
  | AStartRunning =>
    match s_main s with
    | MSpawnedPc =>
      Some {| s_main := MSelect; s_p0 := PRun; s_p1 := PRun; s_child_exited := s_child_exited s;
              s_cancel_flag := s_cancel_flag s; s_trace := LRunning :: s_trace s |}
    | _ => None end
  | APumpEmit i =>
    match pump_of s i with PRun => Some (set_pump s i PRun (LDelta (if i =? 0 then 0 else 1) :: s_trace s)) | _ => None end
  | APumpSilent i =>
    match pump_of s i with PRun => Some (set_pump s i PRun (s_trace s)) | _ => None end
  | APumpEof i =>
    match pump_of s i with PRun => Some (set_pump s i PDone (s_trace s)) | _ => None end
  | AChildExit =>
    match s_main s with
    | MSelect | MKillWait | MJoin _ _ | MCancelEmit _ | MFinal _ | MEnd =>
      Some {| s_main := s_main s; s_p0 := s_p0 s; s_p1 := s_p1 s; s_child_exited := true;
              s_cancel_flag := s_cancel_flag s; s_trace := s_trace s |}
    | _ => None end
  | ACancel =>
    Some {| s_main := s_main s; s_p0 := s_p0 s; s_p1 := s_p1 s; s_child_exited := s_child_exited s;
            s_cancel_flag := true; s_trace := s_trace s |}
  | AWaitReturns ok =>
    match s_main s with
    | MSelect => if s_child_exited s || negb ok
                 then Some (set_main s (MJoin false ok)) else None
    | _ => None end
  | ATakeCancel =>
    match s_main s with
    | MSelect => if s_cancel_flag s then Some (emit s LCancelReq MKillWait) else None
    | _ => None end
  | AKillWaitReturns ok =>
    match s_main s with
    | MKillWait => if s_child_exited s || negb ok then Some (set_main s (MJoin true ok)) else None
    | _ => None end
  | AJoined =>
    match s_main s, s_p0 s, s_p1 s with
    | MJoin c ok, PDone, PDone =>
      Some (set_main s (if c then MCancelEmit ok else MFinal (if ok then 2 else 4)))
    | _, _, _ => None end
  | AEmitCancelled =>
    match s_main s with
    | MCancelEmit ok => Some (emit s LCancelled (MFinal (if ok then 3 else 4)))
    | _ => None end
  | AEmitFinal =>
    match s_main s with MFinal st => Some (emit s (LStatus st) MEnd) | _ => None end
  end.

(* run_task before the repair of S12b: unsupported tool / invalid args / artifacts dir failed the task
   BEFORE the spawn frame was emitted (mod.rs:374-409): the whole stream was `Status failed` *)
Definition step_unfixed (s : sys) (a : act) : option sys :=
  match a with
  | APrecheckFail => match s_main s with MStart => Some (emit s (LStatus 4) MEnd) | _ => None end
  | _ => step s a
  end.
Definition step_skip_unfixed (s : sys) (a : act) : sys :=
  match step_unfixed s a with Some s' => s' | None => s end.
Definition run_unfixed (sched : list act) : sys := fold_left step_skip_unfixed sched sys0.

(* ---------- T1: how the waiter joins the pumps, as read from the source ----------
   tools/gen/pump_join.py regenerates `gen_pipes_waiter : list wop` (Gen/PumpJoin.v) from run_pipes_task on
   every run: the waiter's steps in source order.  A pump handle that is awaited plainly (`h.await` as a
   statement of the function body) is JAwait; a handle that is used in any other way before the terminal
   emit (handed to a helper, wrapped in timeout(..)/select!, aborted, dropped) is JBounded: the waiter may
   go on while the pump is still reading — dropping a tokio JoinHandle only detaches the task; a handle that
   is not used at all between the select and the terminal emit is JNone. *)
Inductive join_kind := JAwait | JBounded | JNone.

Inductive wop :=
| WEmitRunning                       (* emitter.emit(ToolTaskStatus { status: Running }) *)
| WSpawnPump (i : N)                 (* let h = tokio::spawn(pump_output_stream(.. Stdout/Stderr ..)) *)
| WSelect                            (* select! { child.wait(), cancel_rx.changed() => CancelRequested; kill; wait } *)
| WJoin (i : N) (k : join_kind)      (* the first use of pump i's handle after its spawn *)
| WEmitCancelled                     (* emitter.emit(ToolTaskCancelled) *)
| WEmitFinal.                        (* emitter.emit(ToolTaskStatus { status, .. }) — the terminal frame *)

Definition wop_shape (o : wop) : N :=
  match o with
  | WEmitRunning => 0 | WSpawnPump _ => 1 | WSelect => 2 | WJoin _ _ => 3 | WEmitCancelled => 4 | WEmitFinal => 5
  end.

Record join_spec := { j_p0 : join_kind; j_p1 : join_kind }.
Definition join_waits (k : join_kind) : bool := match k with JAwait => true | _ => false end.
Definition join_wf (j : join_spec) : bool := join_waits (j_p0 j) && join_waits (j_p1 j).

Fixpoint after_select (ops : list wop) : list wop :=
  match ops with [] => [] | WSelect :: r => r | _ :: r => after_select r end.
Fixpoint before_final (ops : list wop) : list wop :=
  match ops with [] => [] | WEmitFinal :: _ => [] | o :: r => o :: before_final r end.
Fixpoint join_kind_in (i : N) (seg : list wop) : join_kind :=
  match seg with
  | [] => JNone
  | WJoin i' k :: r => if i' =? i then k else join_kind_in i r
  | _ :: r => join_kind_in i r
  end.
(* how each pump is joined between the select and the terminal emit *)
Definition join_spec_of (ops : list wop) : join_spec :=
  let seg := before_final (after_select ops) in
  {| j_p0 := join_kind_in 0 seg; j_p1 := join_kind_in 1 seg |}.

Definition has_spawn (i : N) (ops : list wop) : bool :=
  existsb (fun o => match o with WSpawnPump i' => i' =? i | _ => false end) ops.

(* the waiter the model's `step` describes: Running, both pumps started, the select, both handles awaited
   unconditionally, the cancelled frame, the terminal frame — in this order *)
Definition skel_wf (ops : list wop) : bool :=
  lN_eqb (map wop_shape ops) [0; 1; 1; 2; 3; 3; 4; 5]
  && has_spawn 0 ops && has_spawn 1 ops
  && join_wf (join_spec_of ops).

(* the join step for an arbitrary join discipline: the waiter leaves MJoin as soon as every pump it really
   waits for has returned *)
Definition pump_joined (k : join_kind) (p : ppc) : bool :=
  negb (join_waits k) || match p with PDone => true | _ => false end.

Definition step_j (j : join_spec) (s : sys) (a : act) : option sys :=
  match a with
  | AJoined =>
    match s_main s with
    | MJoin c ok =>
      if pump_joined (j_p0 j) (s_p0 s) && pump_joined (j_p1 j) (s_p1 s)
      then Some (set_main s (if c then MCancelEmit ok else MFinal (if ok then 2 else 4)))
      else None
    | _ => None end
  | _ => step s a
  end.
Definition step_skip_j (j : join_spec) (s : sys) (a : act) : sys :=
  match step_j j s a with Some s' => s' | None => s end.
Definition run_j (j : join_spec) (sched : list act) : sys := fold_left (step_skip_j j) sched sys0.
(* the system whose waiter is the skeleton read from the source *)
Definition run_w (ops : list wop) (sched : list act) : sys := run_j (join_spec_of ops) sched.

(* the waiter of the real code today, and the waiter with a bounded wait for the pumps (seed C17-1:
   `join_pump` = tokio::time::timeout(1 s, handle)) *)
Definition waiter_canonical : list wop :=
  [WEmitRunning; WSpawnPump 0; WSpawnPump 1; WSelect; WJoin 0 JAwait; WJoin 1 JAwait; WEmitCancelled; WEmitFinal].
Definition waiter_bounded : list wop :=
  [WEmitRunning; WSpawnPump 0; WSpawnPump 1; WSelect; WJoin 0 JBounded; WJoin 1 JBounded; WEmitCancelled; WEmitFinal].

(* ---------- the cancel channel as run_task subscribes to it today ----------
   `step` lets a cancel request made at ANY moment be taken in the select (an over-approximation that also
   covers a run_task that would look at the channel's current value).  The code today: POST /tasks/{id}/cancel
   is `cancel_tx.send_replace(Some(reason))`; run_task's FIRST statement is `handle.cancel_tx.subscribe()`, which
   marks the value current at that moment as seen, and the select waits for `cancel_rx.changed()`.  A request
   that arrives after create_task registered the handle but before the spawned run_task is first polled is
   answered 202 and never noticed.  `step_sub` is `step` with exactly this: the spawn-frame step (run_task's
   start) forgets a pending request. *)
Definition step_sub (s : sys) (a : act) : option sys :=
  match a with
  | ASpawnFrame =>
    match s_main s with
    | MStart =>
      Some {| s_main := MSpawnedPc; s_p0 := s_p0 s; s_p1 := s_p1 s; s_child_exited := s_child_exited s;
              s_cancel_flag := false; s_trace := LSpawned :: s_trace s |}
    | _ => None end
  | _ => step s a
  end.
Definition step_skip_sub (s : sys) (a : act) : sys := match step_sub s a with Some s' => s' | None => s end.
Definition run_sub (sched : list act) : sys := fold_left step_skip_sub sched sys0.

(* ---------- T1: the refusal / failure sites, as read from the source ----------
   tools/gen/task_fail_sites.py regenerates `gen_fail_sites` (Gen/TaskFailSites.v): one entry per `fail_task(..)`
   call in run_task (mod.rs), run_pipes_task (pipes.rs) and run_pty_task (pty.rs) — WHERE it sits relative to
   the spawn-frame emit and the Running emit, and whether the function returns right after it.  `step`'s
   APostSpawnFail is the abstraction of a site that sits after the spawn frame, before Running, and returns. *)
Inductive fail_where := FBeforeSpawn | FAfterSpawn | FAfterRunning.
Record fail_site := { fs_where : fail_where; fs_returns : bool }.
Definition fail_site_wf (f : fail_site) : bool :=
  match fs_where f with FAfterSpawn => fs_returns f | _ => false end.
Definition sites_wf (l : list fail_site) : bool := forallb fail_site_wf l.

(* the schedule alphabet with the failure of the k-th site instead of the abstract APostSpawnFail *)
Inductive act_f := FAct (a : act) | FFail (k : nat).

Definition fail_at (f : fail_site) (s : sys) : option sys :=
  match fs_where f, s_main s with
  | FBeforeSpawn, MStart => Some (emit s (LStatus 4) (if fs_returns f then MEnd else MStart))
  | FAfterSpawn, MSpawnedPc => Some (emit s (LStatus 4) (if fs_returns f then MEnd else MSpawnedPc))
  | FAfterRunning, MSelect => Some (emit s (LStatus 4) (if fs_returns f then MEnd else MSelect))
  | _, _ => None
  end.

Definition step_f (sites : list fail_site) (s : sys) (a : act_f) : option sys :=
  match a with
  | FAct APostSpawnFail => None       (* failures happen at the sites only *)
  | FAct a' => step s a'
  | FFail k => match nth_error sites k with Some f => fail_at f s | None => None end
  end.
Definition step_skip_f (sites : list fail_site) (s : sys) (a : act_f) : sys :=
  match step_f sites s a with Some s' => s' | None => s end.
Definition run_f (sites : list fail_site) (sched : list act_f) : sys := fold_left (step_skip_f sites) sched sys0.

(* the corresponding action of the abstract system (APrecheckFail is never enabled) *)
Definition erase_f (sites : list fail_site) (a : act_f) : act :=
  match a with
  | FAct APostSpawnFail => APrecheckFail
  | FAct a' => a'
  | FFail k => match nth_error sites k with Some _ => APostSpawnFail | None => APrecheckFail end
  end.

(* a schedule is any list of actions; disabled actions are skipped (so EVERY list is a schedule) *)
Definition step_skip (s : sys) (a : act) : sys := match step s a with Some s' => s' | None => s end.
Definition run (sched : list act) : sys := fold_left step_skip sched sys0.
Definition trace (s : sys) : list lev := rev (s_trace s).

(* ====================================================================================================
   The PTY waiter (crates/ripd/src/tasks/pty.rs run_pty_task).  One task, FOUR event sources besides the
   waiter itself: the child (exit status, through the blocking wait_handle), the cancel channel, the control
   channel (stdin write / resize / signal requests accepted by the router) and the reader thread (chunks read
   from the master side, sent through output_tx; the channel closes when the thread returns, which it does
   when the master reports end of output: every descriptor of the SLAVE side is closed).  The waiter emits all
   frames itself, in the loop

       while !(exit_status.is_some() && output_closed) { select! { wait_handle if exit_status.is_none() ..
         cancel_rx.changed() if cancel_reason.is_none() .. control_rx.recv() .. output_rx.recv() if !output_closed } }

   `keeps` = the authority keeps its own descriptor of the slave side for the whole function (the code before
   /repo 35c2d72: `pair.slave` was only borrowed by spawn_command): then the master never reports end of
   output.  Since 35c2d72 the slave is dropped right after the spawn (T1: Gen/PumpJoin.v gen_pty_keeps_slave). *)
Inductive pev :=
| PE (e : lev)               (* the frame kinds of every task stream; the PTY's output frames are LDelta 2 *)
| PCtl (k : N).              (* tool_task_stdin_written (0) / tool_task_resized (1) / tool_task_signalled (2) *)

Definition pev_code (e : pev) : N := match e with PE e' => lev_code e' | PCtl k => 30 + k end.

(* the language of a PTY task stream: that of every task stream, with control acknowledgements allowed where
   output frames are (while running, before or after a cancel request) *)
Definition prstep (r : rst) (e : pev) : rst :=
  match e with
  | PE e' => rstep r e'
  | PCtl _ => match r with RRunning => RRunning | RCancelReq => RCancelReq | _ => RBad end
  end.
Definition precognise (t : list pev) : rst := fold_left prstep t R0.

Inductive qpc :=
| QStart                     (* run_task not started *)
| QSpawnedPc                 (* spawn frame emitted; log writer / openpty / cwd / spawn_command / reader / writer next *)
| QLoop                      (* Running emitted, reader thread and wait thread started; in the while loop *)
| QCancelEmit (ok : bool)    (* loop left, reader thread joined, cancel: emit tool_task_cancelled *)
| QFinal (st : N)            (* emit the terminal status *)
| QEnd.

Record psys := {
  q_pc : qpc;
  q_exit : option bool;      (* exit_status (Some ok once the wait_handle arm has fired; ok=false: wait failed) *)
  q_closed : bool;           (* output_closed *)
  q_reason : bool;           (* cancel_reason.is_some() *)
  q_flag : bool;             (* the watch channel holds a request the receiver has not seen *)
  q_child_exited : bool;     (* the process has terminated *)
  q_slave_closed : bool;     (* no descriptor of the slave side is open any more *)
  q_reader_done : bool;      (* no reader thread is running (not started yet, or returned: output_tx dropped) *)
  q_chan : list bool;        (* chunks waiting in output_rx, oldest first; false = a chunk whose frame is suppressed *)
  q_ctl : list N;            (* requests waiting in control_rx, oldest first *)
  q_trace : list pev         (* frames, newest first *)
}.

Definition psys0 : psys :=
  {| q_pc := QStart; q_exit := None; q_closed := false; q_reason := false; q_flag := false;
     q_child_exited := false; q_slave_closed := false; q_reader_done := true; q_chan := []; q_ctl := [];
     q_trace := [] |}.

Inductive pact :=
| QSpawnFrame                (* run_task: subscribe to the cancel channel, emit Spawned *)
| QFail                      (* one of run_pty_task's seven fail_task sites *)
| QStartRunning              (* child spawned, slave dropped (unless keeps), emit Running, start reader + wait threads *)
| QRead (emits : bool)       (* reader thread: read(2) returned n > 0 bytes; sent to the channel *)
| QChildExit                 (* the process terminates (by itself, by a signal typed at the terminal, by the kill) *)
| QSlaveClosed               (* the last descriptor of the slave side is closed (child and descendants) *)
| QReaderEof                 (* reader thread: read(2) reports end of output (0 / EIO); the thread returns *)
| QCancel                    (* POST /tasks/{id}/cancel, at any moment *)
| QCtlSend (k : N)           (* POST stdin / resize / signal accepted: a message in the control channel *)
| QLoopExit (ok : bool)      (* select arm 1: wait_handle *)
| QLoopCancel                (* select arm 2: cancel_rx.changed(): emit CancelRequested, kill *)
| QLoopCtl (applied : bool)  (* select arm 3: drain_output, handle_control (acknowledged iff applied) *)
| QLoopChunk                 (* select arm 4: output_rx.recv(): Some(chunk) => emit_output | None => output_closed *)
| QLoopDone                  (* the loop condition is false: output_thread.await, control_tx.take(), summary *)
| QEmitCancelled
| QEmitFinal.

Definition q_with (s : psys) (pc : qpc) (tr : list pev) : psys :=
  {| q_pc := pc; q_exit := q_exit s; q_closed := q_closed s; q_reason := q_reason s; q_flag := q_flag s;
     q_child_exited := q_child_exited s; q_slave_closed := q_slave_closed s; q_reader_done := q_reader_done s;
     q_chan := q_chan s; q_ctl := q_ctl s; q_trace := tr |}.

Definition pdelta : pev := PE (LDelta 2).
(* the frames of the chunks in `l` (oldest first), pushed on a newest-first trace *)
Fixpoint push_chunks (l : list bool) (tr : list pev) : list pev :=
  match l with [] => tr | c :: r => push_chunks r (if c then pdelta :: tr else tr) end.

Definition loop_goes_on (s : psys) : bool :=
  negb (match q_exit s with Some _ => true | None => false end && q_closed s).

Definition pstep (keeps : bool) (s : psys) (a : pact) : option psys :=
  match a with
  | QSpawnFrame =>
    match q_pc s with
    | QStart =>
      Some {| q_pc := QSpawnedPc; q_exit := q_exit s; q_closed := q_closed s; q_reason := q_reason s; q_flag := false;
              q_child_exited := q_child_exited s; q_slave_closed := q_slave_closed s; q_reader_done := q_reader_done s;
              q_chan := q_chan s; q_ctl := q_ctl s; q_trace := PE LSpawned :: q_trace s |}
    | _ => None end
  | QFail => match q_pc s with QSpawnedPc => Some (q_with s QEnd (PE (LStatus 4) :: q_trace s)) | _ => None end
  | QStartRunning =>
    match q_pc s with
    | QSpawnedPc =>
      Some {| q_pc := QLoop; q_exit := q_exit s; q_closed := q_closed s; q_reason := q_reason s; q_flag := q_flag s;
              q_child_exited := q_child_exited s; q_slave_closed := q_slave_closed s; q_reader_done := false;
              q_chan := q_chan s; q_ctl := q_ctl s; q_trace := PE LRunning :: q_trace s |}
    | _ => None end
  | QRead e =>
    if q_reader_done s then None else
      Some {| q_pc := q_pc s; q_exit := q_exit s; q_closed := q_closed s; q_reason := q_reason s; q_flag := q_flag s;
              q_child_exited := q_child_exited s; q_slave_closed := q_slave_closed s; q_reader_done := false;
              q_chan := q_chan s ++ [e]; q_ctl := q_ctl s; q_trace := q_trace s |}
  | QChildExit =>
    match q_pc s with
    | QStart | QSpawnedPc => None
    | _ =>
      Some {| q_pc := q_pc s; q_exit := q_exit s; q_closed := q_closed s; q_reason := q_reason s; q_flag := q_flag s;
              q_child_exited := true; q_slave_closed := q_slave_closed s; q_reader_done := q_reader_done s;
              q_chan := q_chan s; q_ctl := q_ctl s; q_trace := q_trace s |}
    end
  | QSlaveClosed =>
    if keeps then None else
    match q_pc s with
    | QStart | QSpawnedPc => None
    | _ =>
      Some {| q_pc := q_pc s; q_exit := q_exit s; q_closed := q_closed s; q_reason := q_reason s; q_flag := q_flag s;
              q_child_exited := q_child_exited s; q_slave_closed := true; q_reader_done := q_reader_done s;
              q_chan := q_chan s; q_ctl := q_ctl s; q_trace := q_trace s |}
    end
  | QReaderEof =>
    if negb (q_reader_done s) && q_slave_closed s then
      Some {| q_pc := q_pc s; q_exit := q_exit s; q_closed := q_closed s; q_reason := q_reason s; q_flag := q_flag s;
              q_child_exited := q_child_exited s; q_slave_closed := q_slave_closed s; q_reader_done := true;
              q_chan := q_chan s; q_ctl := q_ctl s; q_trace := q_trace s |}
    else None
  | QCancel =>
    Some {| q_pc := q_pc s; q_exit := q_exit s; q_closed := q_closed s; q_reason := q_reason s; q_flag := true;
            q_child_exited := q_child_exited s; q_slave_closed := q_slave_closed s; q_reader_done := q_reader_done s;
            q_chan := q_chan s; q_ctl := q_ctl s; q_trace := q_trace s |}
  | QCtlSend k =>
    match q_pc s with
    | QLoop =>
      Some {| q_pc := q_pc s; q_exit := q_exit s; q_closed := q_closed s; q_reason := q_reason s; q_flag := q_flag s;
              q_child_exited := q_child_exited s; q_slave_closed := q_slave_closed s; q_reader_done := q_reader_done s;
              q_chan := q_chan s; q_ctl := q_ctl s ++ [k]; q_trace := q_trace s |}
    | _ => None end
  | QLoopExit ok =>
    match q_pc s, q_exit s with
    | QLoop, None =>
      if q_child_exited s || negb ok then
        Some {| q_pc := QLoop; q_exit := Some ok; q_closed := q_closed s; q_reason := q_reason s; q_flag := q_flag s;
                q_child_exited := q_child_exited s; q_slave_closed := q_slave_closed s; q_reader_done := q_reader_done s;
                q_chan := q_chan s; q_ctl := q_ctl s; q_trace := q_trace s |}
      else None
    | _, _ => None end
  | QLoopCancel =>
    match q_pc s with
    | QLoop =>
      if loop_goes_on s && negb (q_reason s) && q_flag s then
        Some {| q_pc := QLoop; q_exit := q_exit s; q_closed := q_closed s; q_reason := true; q_flag := false;
                q_child_exited := q_child_exited s; q_slave_closed := q_slave_closed s; q_reader_done := q_reader_done s;
                q_chan := q_chan s; q_ctl := q_ctl s; q_trace := PE LCancelReq :: q_trace s |}
      else None
    | _ => None end
  | QLoopCtl applied =>
    match q_pc s, q_ctl s with
    | QLoop, k :: rest =>
      if loop_goes_on s then
        let tr := push_chunks (q_chan s) (q_trace s) in
        Some {| q_pc := QLoop; q_exit := q_exit s; q_closed := q_closed s; q_reason := q_reason s; q_flag := q_flag s;
                q_child_exited := q_child_exited s; q_slave_closed := q_slave_closed s; q_reader_done := q_reader_done s;
                q_chan := []; q_ctl := rest; q_trace := if applied then PCtl k :: tr else tr |}
      else None
    | _, _ => None end
  | QLoopChunk =>
    match q_pc s with
    | QLoop =>
      if q_closed s then None else
      match q_chan s with
      | c :: rest =>
        Some {| q_pc := QLoop; q_exit := q_exit s; q_closed := false; q_reason := q_reason s; q_flag := q_flag s;
                q_child_exited := q_child_exited s; q_slave_closed := q_slave_closed s; q_reader_done := q_reader_done s;
                q_chan := rest; q_ctl := q_ctl s; q_trace := if c then pdelta :: q_trace s else q_trace s |}
      | [] =>
        if q_reader_done s then
          Some {| q_pc := QLoop; q_exit := q_exit s; q_closed := true; q_reason := q_reason s; q_flag := q_flag s;
                  q_child_exited := q_child_exited s; q_slave_closed := q_slave_closed s; q_reader_done := true;
                  q_chan := []; q_ctl := q_ctl s; q_trace := q_trace s |}
        else None
      end
    | _ => None end
  | QLoopDone =>
    match q_pc s, q_exit s with
    | QLoop, Some ok =>
      if q_closed s then
        Some (q_with s (if q_reason s then QCancelEmit ok else QFinal (if ok then 2 else 4)) (q_trace s))
      else None
    | _, _ => None end
  | QEmitCancelled =>
    match q_pc s with
    | QCancelEmit ok => Some (q_with s (QFinal (if ok then 3 else 4)) (PE LCancelled :: q_trace s))
    | _ => None end
  | QEmitFinal =>
    match q_pc s with QFinal st => Some (q_with s QEnd (PE (LStatus st) :: q_trace s)) | _ => None end
  end.

Definition pstep_skip (keeps : bool) (s : psys) (a : pact) : psys :=
  match pstep keeps s a with Some s' => s' | None => s end.
(* every list of actions is a schedule (disabled actions are skipped): every interleaving of the four sources *)
Definition prun (keeps : bool) (sched : list pact) : psys := fold_left (pstep_skip keeps) sched psys0.
Definition ptrace (s : psys) : list pev := rev (q_trace s).

(* from ANY state of the repaired waiter this continuation ends the task: the process terminates, the slave side
   is closed, the reader thread sees the end, the loop consumes what is queued and leaves *)
Definition pty_finish (s : psys) : list pact :=
  [QSpawnFrame; QStartRunning; QChildExit; QSlaveClosed; QReaderEof; QLoopExit true]
  ++ repeat QLoopChunk (S (length (q_chan s)))
  ++ [QLoopDone; QEmitCancelled; QEmitFinal].

(* correspondence: the frames of a real PTY task, re-enacted by the waiter of today's code (keeps = false) *)
Definition pty_check (sched : list pact) : list N :=
  let s := prun false sched in
  let r := precognise (ptrace s) in
  [ (match q_pc s with QEnd => 1 | _ => 0 end); (if r_prefix_ok r then 1 else 0); (if r_complete r then 1 else 0) ]
  ++ map pev_code (ptrace s).

(* correspondence check for an observed kind sequence of a real task *)
Definition lc_check (codes : list N) (t : list lev) : list N :=
  let r := recognise t in
  [ (if r_prefix_ok r then 1 else 0); (if r_complete r then 1 else 0);
    (if spawnless_failed t then 1 else 0) ] ++ map lev_code t ++ codes.
