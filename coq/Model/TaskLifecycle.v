(* C17 — executable model of the life of one background task (crates/ripd/src/tasks/mod.rs run_task,
   tasks/pipes.rs run_pipes_task): the waiter ("main"), the two output pumps, the child process and a
   cancel request are separate actors; `emit` is atomic (TaskEmitter::emit holds the seq mutex across
   publish/record/append, mod.rs:512-527).  No proofs here (Proofs/TaskLifecycleProofs.v). *)
From RipV Require Import Base.Prelude.

(* frame kinds of a task stream *)
Inductive lev :=
| LSpawned                    (* tool_task_spawned *)
| LRunning                    (* tool_task_status running *)
| LDelta (stream : N)         (* tool_task_output_delta; 0 stdout 1 stderr *)
| LCancelReq                  (* tool_task_cancel_requested *)
| LCancelled                  (* tool_task_cancelled *)
| LStatus (st : N).           (* terminal tool_task_status: 2 exited 3 cancelled 4 failed *)

Definition lev_code (e : lev) : N :=
  match e with
  | LSpawned => 0 | LRunning => 1 | LDelta s => 10 + s | LCancelReq => 2 | LCancelled => 3
  | LStatus st => 20 + st
  end.

(* ---------- the recogniser of the allowed language ----------
     Spawned · Running? · Delta* · (CancelReq · Delta* · Cancelled)? · Status
   with: Status exited only without a cancel, Status cancelled only after Cancelled, Status failed only
   right after Spawned (post-spawn failure: log file / cwd / spawn error) or after Running (wait failed);
   Delta only after Running.  `RDone` is absorbing-rejecting: nothing may follow the terminal frame. *)
Inductive rst :=
| R0            (* nothing yet *)
| RSpawned
| RRunning
| RCancelReq
| RCancelled
| RDone (st : N)
| RBad.

Definition rstep (r : rst) (e : lev) : rst :=
  match r, e with
  | R0, LSpawned => RSpawned
  | RSpawned, LRunning => RRunning
  | RSpawned, LStatus 4 => RDone 4
  | RRunning, LDelta _ => RRunning
  | RRunning, LCancelReq => RCancelReq
  | RRunning, LStatus 2 => RDone 2
  | RRunning, LStatus 4 => RDone 4
  | RCancelReq, LDelta _ => RCancelReq
  | RCancelReq, LCancelled => RCancelled
  | RCancelled, LStatus 3 => RDone 3
  | RCancelled, LStatus 4 => RDone 4
  | _, _ => RBad
  end.

Definition recognise (t : list lev) : rst := fold_left rstep t R0.

Definition r_prefix_ok (r : rst) : bool := match r with RBad => false | _ => true end.
Definition r_complete (r : rst) : bool := match r with RDone _ => true | _ => false end.

(* the spawn-less opening (S12b, repaired): run_task used to fail BEFORE emitting the spawn frame when
   the tool is unsupported, the args do not deserialise, or the artifacts dir cannot be created: the
   whole stream was the single frame `Status failed`. *)
Definition spawnless_failed (t : list lev) : bool :=
  match t with [LStatus 4] => true | _ => false end.

(* ---------- the concurrent system ---------- *)
Inductive mpc :=           (* program counter of the waiter *)
| MStart                   (* before the pre-spawn checks *)
| MSpawnedPc               (* spawn frame emitted; log writers / cwd / Command::spawn next *)
| MSelect                  (* Running emitted, pumps started; select { child.wait, cancel_rx.changed } *)
| MKillWait                (* cancel branch taken: CancelReq emitted, kill sent; child.wait().await *)
| MJoin (cancelled waitok : bool) (* stdout_handle.await; stderr_handle.await *)
| MCancelEmit (waitok : bool)      (* pumps joined, cancel: emit tool_task_cancelled *)
| MFinal (st : N)          (* emit the terminal status *)
| MEnd.

Inductive ppc := PIdle | PRun | PDone.     (* pump: not started / reading / returned *)

Record sys := {
  s_main : mpc;
  s_p0 : ppc; s_p1 : ppc;
  s_child_exited : bool;
  s_cancel_flag : bool;       (* watch channel holds Some(reason) *)
  s_trace : list lev          (* frames in emission order (reverse: newest first) *)
}.

Definition sys0 : sys :=
  {| s_main := MStart; s_p0 := PIdle; s_p1 := PIdle; s_child_exited := false;
     s_cancel_flag := false; s_trace := [] |}.

Inductive act :=
| APrecheckFail            (* unsupported tool / invalid args / artifacts dir *)
| ASpawnFrame              (* emit Spawned *)
| APostSpawnFail           (* writer create / cwd / spawn failed: fail_task *)
| AStartRunning            (* child spawned: emit Running, start both pumps *)
| APumpEmit (i : N)        (* pump i read a chunk whose preview is non-empty: emit Delta *)
| APumpSilent (i : N)      (* pump i read a chunk with an empty preview: append only *)
| APumpEof (i : N)         (* pump i saw EOF / error: returns *)
| AChildExit               (* the process terminates (by itself or by the kill) *)
| ACancel                  (* POST /tasks/{id}/cancel at any moment (also repeated) *)
| AWaitReturns (ok : bool) (* select: child.wait() branch; ok=false: wait failed *)
| ATakeCancel              (* select: cancel_rx.changed() branch: emit CancelReq, kill *)
| AKillWaitReturns (ok : bool)
| AJoined                  (* both pump handles awaited *)
| AEmitCancelled
| AEmitFinal.

Definition emit (s : sys) (e : lev) (m : mpc) : sys :=
  {| s_main := m; s_p0 := s_p0 s; s_p1 := s_p1 s; s_child_exited := s_child_exited s;
     s_cancel_flag := s_cancel_flag s; s_trace := e :: s_trace s |}.

Definition set_main (s : sys) (m : mpc) : sys :=
  {| s_main := m; s_p0 := s_p0 s; s_p1 := s_p1 s; s_child_exited := s_child_exited s;
     s_cancel_flag := s_cancel_flag s; s_trace := s_trace s |}.

Definition pump_of (s : sys) (i : N) : ppc := if i =? 0 then s_p0 s else s_p1 s.
Definition set_pump (s : sys) (i : N) (p : ppc) (tr : list lev) : sys :=
  {| s_main := s_main s; s_p0 := if i =? 0 then p else s_p0 s; s_p1 := if i =? 0 then s_p1 s else p;
     s_child_exited := s_child_exited s; s_cancel_flag := s_cancel_flag s; s_trace := tr |}.

(* one step; None = the action is not enabled in this state *)
Definition step (s : sys) (a : act) : option sys :=
  match a with
  | APrecheckFail => None   (* since the repair of S12b the spawn frame precedes every check: a refused
                               request is APostSpawnFail *)
  | ASpawnFrame => match s_main s with MStart => Some (emit s LSpawned MSpawnedPc) | _ => None end
  | APostSpawnFail => match s_main s with MSpawnedPc => Some (emit s (LStatus 4) MEnd) | _ => None end
  | AStartRunning =>
    match s_main s with
    | MSpawnedPc =>
      Some {| s_main := MSelect; s_p0 := PRun; s_p1 := PRun; s_child_exited := s_child_exited s;
              s_cancel_flag := s_cancel_flag s; s_trace := LRunning :: s_trace s |}
    | _ => None end
  | APumpEmit i =>
    match pump_of s i with PRun => Some (set_pump s i PRun (LDelta (if i =? 0 then 0 else 1) :: s_trace s)) | _ => None end
  | APumpSilent i =>
    match pump_of s i with PRun => Some (set_pump s i PRun (s_trace s)) | _ => None end
  | APumpEof i =>
    match pump_of s i with PRun => Some (set_pump s i PDone (s_trace s)) | _ => None end
  | AChildExit =>
    match s_main s with
    | MSelect | MKillWait | MJoin _ _ | MCancelEmit _ | MFinal _ | MEnd =>
      Some {| s_main := s_main s; s_p0 := s_p0 s; s_p1 := s_p1 s; s_child_exited := true;
              s_cancel_flag := s_cancel_flag s; s_trace := s_trace s |}
    | _ => None end
  | ACancel =>
    Some {| s_main := s_main s; s_p0 := s_p0 s; s_p1 := s_p1 s; s_child_exited := s_child_exited s;
            s_cancel_flag := true; s_trace := s_trace s |}
  | AWaitReturns ok =>
    match s_main s with
    | MSelect => if s_child_exited s || negb ok
                 then Some (set_main s (MJoin false ok)) else None
    | _ => None end
  | ATakeCancel =>
    match s_main s with
    | MSelect => if s_cancel_flag s then Some (emit s LCancelReq MKillWait) else None
    | _ => None end
  | AKillWaitReturns ok =>
    match s_main s with
    | MKillWait => if s_child_exited s || negb ok then Some (set_main s (MJoin true ok)) else None
    | _ => None end
  | AJoined =>
    match s_main s, s_p0 s, s_p1 s with
    | MJoin c ok, PDone, PDone =>
      Some (set_main s (if c then MCancelEmit ok else MFinal (if ok then 2 else 4)))
    | _, _, _ => None end
  | AEmitCancelled =>
    match s_main s with
    | MCancelEmit ok => Some (emit s LCancelled (MFinal (if ok then 3 else 4)))
    | _ => None end
  | AEmitFinal =>
    match s_main s with MFinal st => Some (emit s (LStatus st) MEnd) | _ => None end
  end.

(* run_task before the repair of S12b: unsupported tool / invalid args / artifacts dir failed the task
   BEFORE the spawn frame was emitted (mod.rs:374-409): the whole stream was `Status failed` *)
Definition step_unfixed (s : sys) (a : act) : option sys :=
  match a with
  | APrecheckFail => match s_main s with MStart => Some (emit s (LStatus 4) MEnd) | _ => None end
  | _ => step s a
  end.
Definition step_skip_unfixed (s : sys) (a : act) : sys :=
  match step_unfixed s a with Some s' => s' | None => s end.
Definition run_unfixed (sched : list act) : sys := fold_left step_skip_unfixed sched sys0.

(* a schedule is any list of actions; disabled actions are skipped (so EVERY list is a schedule) *)
Definition step_skip (s : sys) (a : act) : sys := match step s a with Some s' => s' | None => s end.
Definition run (sched : list act) : sys := fold_left step_skip sched sys0.
Definition trace (s : sys) : list lev := rev (s_trace s).

(* correspondence check for an observed kind sequence of a real task *)
Definition lc_check (codes : list N) (t : list lev) : list N :=
  let r := recognise t in
  [ (if r_prefix_ok r then 1 else 0); (if r_complete r then 1 else 0);
    (if spawnless_failed t then 1 else 0) ] ++ map lev_code t ++ codes.
