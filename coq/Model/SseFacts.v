(* C15, tie T1 — the facts about the Rust source the model and the proofs rest on, as VALUES the extractor
   tools/gen/sse_decode.py reads off crates/rip-provider-openresponses/src/lib.rs, crates/ripd/src/session.rs and
   crates/rip-kernel/src/lib.rs on every run (coq/Gen/SseGen.v), compared here with what the model uses.
   `line_step_gen` is the line rule of SseDecoder::push as an interpreter of a rule table; Proofs/SseJsonProofs.v
   proves Sse.line_step = line_step_gen LINE_RULES CR, so the generated table speaks about the model's own function. *)
From RipV Require Import Base.Prelude Base.Utf8 Base.Json Model.Sse Model.SseJson.

Inductive trimk := TrimBoth | TrimStart | TrimNone.       (* rest.trim() | rest.trim_start() | rest *)
Inductive lact := ASetEvent (t : trimk) | APushData (t : trimk).
Definition apply_trim (t : trimk) (s : str) : str :=
  match t with TrimBoth => trim s | TrimStart => trim_start s | TrimNone => s end.

(* the `if let Some(rest) = line.strip_prefix(..) {..} else if ..` chain, in source order *)
Definition LINE_RULES : list (str * lact) := [(S_EVENT, ASetEvent TrimBoth); (S_DATA, APushData TrimStart)].
Definition CR : N := 13.

Section Interp.
Variable classify : option str -> str -> cls.
Fixpoint interp_rules (rules : list (str * lact)) (s : lstate) (line : str) : lstate * list pev :=
  match rules with
  | [] =>
    match line with
    | [] => match snd s with
            | [] => (s, [])
            | _ => ((None, []), [parse_event classify (fst s) (join_nl (snd s))])
            end
    | _ => (s, [])
    end
  | (p, a) :: r =>
    match strip_prefix p line with
    | Some rest =>
      match a with
      | ASetEvent t => let v := apply_trim t rest in ((match v with [] => None | _ => Some v end, snd s), [])
      | APushData t => ((fst s, snd s ++ [apply_trim t rest]), [])
      end
    | None => interp_rules r s line
    end
  end.
Definition trim_end_char (c : N) (s : str) : str := rev (drop_while (fun x => x =? c) (rev s)).
Definition line_step_gen (rules : list (str * lact)) (eol : N) (s : lstate) (line0 : str) : lstate * list pev :=
  interp_rules rules s (trim_end_char eol line0).
End Interp.

(* ---------- comparison of generated values with the model's ---------- *)
Definition trimk_eqb (a b : trimk) : bool :=
  match a, b with TrimBoth, TrimBoth | TrimStart, TrimStart | TrimNone, TrimNone => true | _, _ => false end.
Definition lact_eqb (a b : lact) : bool :=
  match a, b with
  | ASetEvent x, ASetEvent y | APushData x, APushData y => trimk_eqb x y
  | _, _ => false
  end.
Definition rules_eqb (a b : list (str * lact)) : bool :=
  list_eqb (fun x y => lN_eqb (fst x) (fst y) && lact_eqb (snd x) (snd y)) a b.

(* how many bytes push_bytes drops for an invalid sequence: at valid_up_to = 0 and after a valid prefix *)
Inductive drainw := DrainErrorLen | DrainOneByte | DrainOther.
Definition drainw_eqb (a b : drainw) : bool :=
  match a, b with DrainErrorLen, DrainErrorLen | DrainOneByte, DrainOneByte | DrainOther, DrainOther => true | _, _ => false end.
(* what is added to the mapper-local seq of the frames of one batch *)
Inductive seqbase := BaseSeqOffset | BaseRunningSeq | BaseOther.
Definition seqbase_eqb (a b : seqbase) : bool :=
  match a, b with BaseSeqOffset, BaseSeqOffset | BaseRunningSeq, BaseRunningSeq | BaseOther, BaseOther => true | _, _ => false end.

(* SseDecoder::push / finish / parse_event (lib.rs) *)
Record decoder_facts := {
  df_append_verbatim : bool;     (* the only edit of the buffer before the split is `self.buffer.push_str(chunk)` *)
  df_split_char : N;             (* self.buffer.split('\n') *)
  df_pending_tail : bool;        (* last piece without a final '\n' is kept as the new buffer, not processed *)
  df_eol_trim_char : option N;   (* `let line = line.trim_end_matches('\r')` on every complete line, before the rules *)
  df_rules : list (str * lact);
  df_empty_event_is_none : bool; (* value.is_empty() => current_event = None *)
  df_blank_dispatch : bool;      (* blank line: if current_data non-empty { join, parse_event, clear data, event = None } *)
  df_join : str;                 (* self.current_data.join("\n") *)
  df_finish : bool;              (* finish: nothing on an empty buffer, else push(buffer + "\n") on a cleared buffer *)
  df_done : str;                 (* raw == "[DONE]" *)
  df_max_nesting : nat;          (* rip_kernel::MAX_PAYLOAD_NESTING, compared with json_nesting(value) by `>` *)
}.
Definition decoder_facts_ok (f : decoder_facts) : bool :=
  df_append_verbatim f && (df_split_char f =? NL) && df_pending_tail f
  && option_eqb N.eqb (df_eol_trim_char f) (Some CR)
  && rules_eqb (df_rules f) LINE_RULES && df_empty_event_is_none f && df_blank_dispatch f
  && lN_eqb (df_join f) [NL] && df_finish f && lN_eqb (df_done f) S_DONE
  && Nat.eqb (df_max_nesting f) MAX_PAYLOAD_NESTING.

(* ParsedEvent::event / EventFrameMapper (lib.rs) *)
Record mapper_facts := {
  mf_type_key : str; mf_delta_key : str; mf_otd : str;     (* output_text_delta: obj.get("type") == "response.output_text.delta", obj.get("delta") *)
  mf_delta_from_object_only : bool;                        (* data.as_object()? ; the event name is not consulted *)
  mf_mismatch : list str;                                  (* the pieces of format!("event name '{event_name}' does not match type '{type_name}'") *)
  mf_mismatch_after_validation : bool;                     (* pushed after validate_stream_event's errors, iff event_name != type_name *)
  mf_event_data_is_parsed_value : bool;                    (* ParsedEvent::event: data: Some(data) — the parsed value, not the normalised copy *)
  mf_validation_data : bool;                               (* validation_data = if normalize_missing_item_ids { normalize_event_for_validation(&data) } else { data.clone() };
                                                              validate_stream_event(&validation_data); response errors from validation_data.get("response") *)
  mf_raw_for_text_kinds : bool;                            (* Done / InvalidJson => raw = Some(parsed.raw.clone()), data None; Event => data = parsed.data.clone(), raw None *)
  mf_event_name_from_sse : bool;                           (* event_name: parsed.event.clone() *)
  mf_provider_then_delta : bool;                           (* map: provider frame first, then at most one OutputTextDelta *)
  mf_seq_from_zero_by_one : bool;                          (* new: seq 0; emit: seq = self.seq; self.seq += 1 *)
}.
Definition mapper_facts_ok (f : mapper_facts) : bool :=
  lN_eqb (mf_type_key f) S_TYPE && lN_eqb (mf_delta_key f) S_DELTA && lN_eqb (mf_otd f) S_OTD
  && mf_delta_from_object_only f
  && list_eqb lN_eqb (mf_mismatch f) [M_MIS1; M_MIS2; M_MIS3] && mf_mismatch_after_validation f
  && mf_event_data_is_parsed_value f && mf_validation_data f
  && mf_raw_for_text_kinds f && mf_event_name_from_sse f && mf_provider_then_delta f && mf_seq_from_zero_by_one f.

(* OpenResponsesSsePipe (session.rs) *)
Record pipe_facts := {
  pf_offset_is_seq_at_creation : bool;   (* new: seq_offset: *seq *)
  pf_drain_at_start : drainw;            (* push_bytes, valid_up_to = 0 *)
  pf_drain_after_valid : drainw;         (* push_bytes, after the valid prefix *)
  pf_one_fffd_per_invalid : bool;        (* one push_sse_str("\u{FFFD}") in each of the two branches *)
  pf_incomplete_kept : bool;             (* error_len() == None: break, the bytes stay in utf8_buf *)
  pf_cut_in_push : bool;                 (* push_sse_str: truncate_after_done(&mut parsed) before the mapper *)
  pf_cut_in_finish : bool;               (* finish: the same *)
  pf_cut_is_upto_first_done : bool;      (* truncate_after_done: position of the first Done, truncate(pos + 1) *)
  pf_base_in_push : seqbase;             (* push_sse_str: frame.seq += self.seq_offset *)
  pf_base_in_finish : seqbase;           (* finish: frame.seq += self.seq_offset *)
  pf_seq_advanced_by_count : bool;       (* *self.seq += frame_count as u64 in both *)
  pf_reader_loop : bool;                 (* stream_openresponses_request: push_bytes per chunk until saw_done; finish() iff never saw_done *)
}.
Definition pipe_facts_ok (f : pipe_facts) : bool :=
  pf_offset_is_seq_at_creation f
  && drainw_eqb (pf_drain_at_start f) (if fx_drain0 FIXED then DrainErrorLen else DrainOneByte)
  && drainw_eqb (pf_drain_after_valid f) DrainErrorLen
  && pf_one_fffd_per_invalid f && pf_incomplete_kept f
  && Bool.eqb (pf_cut_in_push f) (fx_cut FIXED) && Bool.eqb (pf_cut_in_finish f) (fx_cut FIXED) && pf_cut_is_upto_first_done f
  && seqbase_eqb (pf_base_in_push f) BaseSeqOffset && seqbase_eqb (pf_base_in_finish f) BaseSeqOffset
  && pf_seq_advanced_by_count f && pf_reader_loop f.
