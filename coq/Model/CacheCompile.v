(* C04 x C08 — the compile INPUT through the cache files as a reader finds them.
   Executable model of ContinuityStore::load_context_compile_input_recent_messages_v1 (continuities.rs) over
   arbitrary contents of the messages+runs sidecar and of the full sidecar's tail (no proofs here;
   Proofs/CacheCompileProofs.v).  The compiler itself, the cut point and the two healthy producers are
   builder compile's Model/Compile.v (imported, not duplicated); here is what C04 adds: every producer with its
   failure legs (file absent / a line that does not parse inside the scanned window / zero-length file / rebuilt
   from the full sidecar's lines), the order in which they are tried, and what each failure falls back to.

     ensure_messages_runs_sidecar_best_effort_v1   mr_effective   (absent => built from the full sidecar's lines;
                                                                  an unparsable line there => Err)
     scan_tail_messages_runs_v1 (budget)           scan_lines     (the last k lines; every one must parse)
     try_read_head_v1                              head_of        (last line of the full sidecar, if it parses)
     head_seq_seen_by_messages_runs_v1             Compile.head_seen
     one pass of the `while tail_bytes <= MAX`     tail_round     (return / Err / break / next budget)
     the doubling loop                             tail_loop      (budgets as a list: any schedule)
     window_recent_messages_v1_from_message_id     a parameter `window` (seek + message-id indexes are not modelled;
                                                   the theorem asks of it only what C08 proves of the healthy one)
     replay_events + resolve_..._cutpoint_full     the truth stream l and Compile.cut_point

   Budgets are in lines: the byte budgets of the code only decide how many whole lines a backward scan parses
   (a line cut by the window's edge stays unparsed unless the scan reached the start of the file). *)
From RipV Require Import Base.Prelude Model.Compile.

Inductive cline := CGood (f : frame) | CBad.
Definition cfile := option (list cline).          (* None = the file does not exist *)

Fixpoint all_good_c (ls : list cline) : option log :=
  match ls with
  | [] => Some []
  | CGood f :: r => match all_good_c r with Some fs => Some (f :: fs) | None => None end
  | CBad :: _ => None
  end.

Inductive scan := ScErr | ScTail (evs : log) (cpl : bool).

Definition lastn_lines (k : nat) (ls : list cline) : list cline := rev (firstn k (rev ls)).
(* scan_sidecar_backwards: the last k lines, oldest first; `complete` iff the start of the file was reached *)
Definition scan_lines (k : nat) (ls : list cline) : scan :=
  match all_good_c (lastn_lines k ls) with
  | Some evs => ScTail evs (length ls <=? k)%nat
  | None => ScErr
  end.

(* the file the tail scan reads: the mr sidecar as found, or (absent) the one built from the full sidecar's lines —
   nothing is written when the full sidecar holds no message / run_ended frame.  None = Err *)
Definition mr_effective (mr full : cfile) : option cfile :=
  match mr with
  | Some ls => Some (Some ls)
  | None =>
    match full with
    | None => Some None
    | Some fl =>
      match all_good_c fl with
      | Some fs => Some (match filter mr_keep fs with [] => None | x => Some (map CGood x) end)
      | None => None
      end
    end
  end.

Definition head_of (full : cfile) : option frame :=
  match full with
  | Some ls => match last ls CBad with CGood f => Some f | CBad => None end
  | None => None
  end.

Fixpoint last_msg_seq (l : log) : option N :=
  match l with
  | [] => None
  | f :: r => match last_msg_seq r with Some s => Some s | None => if is_msg f then Some (fseq f) else None end
  end.
(* `message_events.last().is_some_and(|(_, id)| id == anchor_message_id)` *)
Definition cut_is_head (evs : log) (a : N) : bool :=
  match last_msg_seq evs with Some s => s =? a | None => false end.

Inductive round := RReturn (evs : log) (from : N) | RFail | RBreak | RNext.

Definition tail_round (r : tail_count) (limit k : nat) (m : cfile) (fh : option frame) (a : N) : round :=
  match m with
  | None => RBreak                                               (* Ok(None) => break *)
  | Some ls =>
    match scan_lines k ls with
    | ScErr => RBreak                                            (* Err(_) => break *)
    | ScTail [] cpl => if cpl then RFail else RNext              (* "continuity sidecar is empty" *)
    | ScTail evs cpl =>
      let head := match fh with
                  | Some f => head_seen true [f] evs
                  | None => match last_frame evs with Some g => fseq g | None => 0 end
                  end in
      if cut_is_head evs a && (match fh with None => true | Some _ => false end) then RBreak
      else match tail_cut evs head a with
           | Some from => if cpl || (limit <=? tail_message_count r from evs)%nat then RReturn evs from else RNext
           | None => if cpl then RFail else RNext                (* "continuity message not found" *)
           end
    end
  end.

Fixpoint tail_loop (r : tail_count) (limit : nat) (ks : list nat) (m : cfile) (fh : option frame) (a : N) : round :=
  match ks with
  | [] => RBreak
  | k :: ks' => match tail_round r limit k m fh a with RNext => tail_loop r limit ks' m fh a | x => x end
  end.

(* after the loop: the seek window if it answers, else the full replay *)
Definition after_loop (window : option (log * N)) (l : log) (a : N) : option (log * N) :=
  match window with
  | Some w => Some w
  | None => match cut_point l a with Some from => Some (l, from) | None => None end
  end.

Definition input_fast (r : tail_count) (limit : nat) (ks : list nat) (mr full : cfile)
           (window : option (log * N)) (l : log) (a : N) : option (log * N) :=
  match mr_effective mr full with
  | None => after_loop window l a
  | Some m =>
    match tail_loop r limit ks m (head_of full) a with
    | RReturn evs from => Some (evs, from)
    | RFail => None
    | _ => after_loop window l a
    end
  end.

(* the context compiled for a run whose input came through the caches (checkpoint source: the projection of the
   stream; the checkpoint look-ups through `.comp` are c04_latest_checkpoint_transparent_partial's subject) *)
Definition compile_fast (r : tail_count) (P : params) (texts : N -> N) (ks : list nat) (mr full : cfile)
           (window : option (log * N)) (l : log) (a : N) : option (decision * bundle) :=
  match input_fast r (p_limit P) ks mr full window l a with
  | Some (evs, from) => Some (compile_with P texts evs (filter is_ckpt l) from a)
  | None => None
  end.

(* ------------------------------------------------------------------ the classes *)
(* K2m (the messages+runs sidecar is not what a rebuild would write, in a way no scan notices): some suffix of the
   file whose lines all parse is not a suffix of the projection of the truth stream, or the whole file parses and is
   not the whole projection.  A file with unparsable lines anywhere, a torn last line, a zero-length file on a thread
   without messages are all OUTSIDE K2m (faithful); a file re-created by an append after its loss is inside.
   When the file is absent: a full sidecar whose every line parses is the truth stream (as for the checkpoint sidecar). *)
Definition MrFileFaithful (l : log) (ls : list cline) : Prop :=
  forall p sfx evs, ls = p ++ sfx -> all_good_c sfx = Some evs ->
    exists pre, filter mr_keep l = pre ++ evs /\ (p = [] -> pre = []).
Definition MrFaithful (l : log) (mr full : cfile) : Prop :=
  match mr with
  | Some ls => MrFileFaithful l ls
  | None => match full with
            | None => True
            | Some fl => forall fs, all_good_c fl = Some fs -> fs = l
            end
  end.
(* K1 restricted to what this reader uses of the full sidecar: its last line, when it parses, is the last frame of the
   truth stream *)
Definition HeadFaithful (l : log) (full : cfile) : Prop :=
  forall f, head_of full = Some f -> last_frame l = Some f.
(* the seek-window producer, when it answers, hands over an admissible window for the thread's cut (C08 proves this of
   the healthy one: c08_window_path_agrees; its index files are outside this model) *)
Definition WindowSpec (limit : nat) (l : log) (a : N) (window : option (log * N)) : Prop :=
  forall evs from, window = Some (evs, from) ->
    cut_point l a = Some from /\ exists keep, admissible_input keep limit l from evs.

(* ------------------------------------------------------------------ observation encoding + case (correspondence) *)
(* what the harness observes of a compile through the caches as found: did it succeed, the recorded cut, the user
   messages of the bundle (by seq), the number of summary refs *)
Definition is_summary (i : item) : bool := match i with ISummary _ _ => true | _ => false end.
Definition cc_obs (o : option (decision * bundle)) : list N :=
  match o with
  | None => [0]
  | Some (_, b) =>
    [1; b_from b; nlen (filter is_summary (b_items b))]
      ++ flat_map (fun i => match i with IUser s => [s] | _ => [] end) (b_items b)
  end.

(* a cache file by line: Some i = the line is byte-identical to the truth line of frame i (seq = position in a valid
   stream), None = it does not parse *)
Definition cc_lines (fr : log) (ixs : list (option N)) : list cline :=
  map (fun o => match o with
                | Some i => match nth_error fr (N.to_nat i) with Some f => CGood f | None => CBad end
                | None => CBad
                end) ixs.

Record cc_case := {
  cc_l : log;                 (* the thread's frames in events.jsonl *)
  cc_mrf : cfile;             (* <id>.mr.v1.jsonl as found *)
  cc_fullf : cfile;           (* <id>.jsonl as found *)
  cc_budgets : list nat;      (* whole lines inside the last 256 KiB, 512 KiB, .. 8 MiB of the file the tail scan reads *)
  cc_anchor : N;
  cc_expect : list N }.

(* the seek window is left out (None): by c04_compile_transparent_partial it cannot change the answer on a faithful store *)
Definition cc_model_obs (r : tail_count) (limit max_refs : N) (frame_rule : bool) (c : cc_case) : list N :=
  cc_obs (compile_fast r (code_params limit max_refs frame_rule) (fun _ => 0) (cc_budgets c) (cc_mrf c) (cc_fullf c) None
                       (cc_l c) (cc_anchor c)).
Definition cc_check_case (r : tail_count) (limit max_refs : N) (frame_rule : bool) (c : cc_case) : bool :=
  valid_log (cc_l c) && lN_eqb (cc_model_obs r limit max_refs frame_rule c) (cc_expect c).
