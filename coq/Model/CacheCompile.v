(* C04 x C08 — the compile INPUT through the cache files as a reader finds them.
   Executable model of ContinuityStore::load_context_compile_input_recent_messages_v1 (continuities.rs) over
   arbitrary contents of the messages+runs sidecar and of the full sidecar's tail (no proofs here;
   Proofs/CacheCompileProofs.v).  The compiler itself, the cut point and the two healthy producers are
   builder compile's Model/Compile.v (imported, not duplicated); here is what C04 adds: every producer with its
   failure legs (file absent / a line that does not parse inside the scanned window / zero-length file / rebuilt
   from the full sidecar's lines), the order in which they are tried, and what each failure falls back to.

     ensure_messages_runs_sidecar_best_effort_v1   mr_effective   (absent => built from the full sidecar's lines;
                                                                  an unparsable line there => Err)
     scan_tail_messages_runs_v1 (budget)           scan_lines     (the last k lines; every one must parse)
     try_read_head_v1                              head_of        (last line of the full sidecar, if it parses)
     head_seq_seen_by_messages_runs_v1             Compile.head_seen
     one pass of the `while tail_bytes <= MAX`     tail_round     (return / Err / break / next budget)
     the doubling loop                             tail_loop      (budgets as a list: any schedule)
     window_recent_messages_v1_from_message_id     a parameter `window` (seek + message-id indexes are not modelled;
                                                   the theorem asks of it only what C08 proves of the healthy one)
     replay_events + resolve_..._cutpoint_full     the truth stream l and Compile.cut_point

   Budgets are in lines: the byte budgets of the code only decide how many whole lines a backward scan parses
   (a line cut by the window's edge stays unparsed unless the scan reached the start of the file). *)
From RipV Require Import Base.Prelude Model.Compile.

Inductive cline := CGood (f : frame) | CBad.
Definition cfile := option (list cline).          (* None = the file does not exist *)

Fixpoint all_good_c (ls : list cline) : option log :=
  match ls with
  | [] => Some []
  | CGood f :: r => match all_good_c r with Some fs => Some (f :: fs) | None => None end
  | CBad :: _ => None
  end.

Inductive scan := ScErr | ScTail (evs : log) (cpl : bool).

Definition lastn_lines (k : nat) (ls : list cline) : list cline := rev (firstn k (rev ls)).
(* scan_sidecar_backwards: the last k lines, oldest first; `complete` iff the start of the file was reached *)
Definition scan_lines (k : nat) (ls : list cline) : scan :=
  match all_good_c (lastn_lines k ls) with
  | Some evs => ScTail evs (length ls <=? k)%nat
  | None => ScErr
  end.

(* a zero-length derived sidecar is a lost sidecar, not the history of a thread without such frames
   (derived_sidecar_holds_data; S4c, fixed in /repo): the ensure_* functions treat it as absent *)
Definition seen (f : cfile) : cfile := match f with Some [] => None | _ => f end.

(* the file the tail scan reads: the mr sidecar as found, or (absent / zero-length) the one built from the full
   sidecar's lines — nothing is written when the full sidecar holds no message / run_ended frame.  None = Err *)
Definition mr_effective (mr full : cfile) : option cfile :=
  match seen mr with
  | Some ls => Some (Some ls)
  | None =>
    match full with
    | None => Some None
    | Some fl =>
      match all_good_c fl with
      | Some fs => Some (match filter mr_keep fs with [] => None | x => Some (map CGood x) end)
      | None => None
      end
    end
  end.

Definition head_of (full : cfile) : option frame :=
  match full with
  | Some ls => match last ls CBad with CGood f => Some f | CBad => None end
  | None => None
  end.

Fixpoint last_msg_seq (l : log) : option N :=
  match l with
  | [] => None
  | f :: r => match last_msg_seq r with Some s => Some s | None => if is_msg f then Some (fseq f) else None end
  end.
(* `message_events.last().is_some_and(|(_, id)| id == anchor_message_id)` *)
Definition cut_is_head (evs : log) (a : N) : bool :=
  match last_msg_seq evs with Some s => s =? a | None => false end.

Inductive round := RReturn (evs : log) (from : N) | RFail | RBreak | RNext.

Definition tail_round (r : tail_count) (limit k : nat) (m : cfile) (fh : option frame) (a : N) : round :=
  match m with
  | None => RBreak                                               (* Ok(None) => break *)
  | Some ls =>
    match scan_lines k ls with
    | ScErr => RBreak                                            (* Err(_) => break *)
    | ScTail [] cpl => if cpl then RFail else RNext              (* "continuity sidecar is empty" *)
    | ScTail evs cpl =>
      let head := match fh with
                  | Some f => head_seen true [f] evs
                  | None => match last_frame evs with Some g => fseq g | None => 0 end
                  end in
      if cut_is_head evs a && (match fh with None => true | Some _ => false end) then RBreak
      else match tail_cut evs head a with
           | Some from => if cpl || (limit <=? tail_message_count r from evs)%nat then RReturn evs from else RNext
           | None => if cpl then RFail else RNext                (* "continuity message not found" *)
           end
    end
  end.

Fixpoint tail_loop (r : tail_count) (limit : nat) (ks : list nat) (m : cfile) (fh : option frame) (a : N) : round :=
  match ks with
  | [] => RBreak
  | k :: ks' => match tail_round r limit k m fh a with RNext => tail_loop r limit ks' m fh a | x => x end
  end.

(* after the loop: the seek window if it answers, else the full replay *)
Definition after_loop (window : option (log * N)) (l : log) (a : N) : option (log * N) :=
  match window with
  | Some w => Some w
  | None => match cut_point l a with Some from => Some (l, from) | None => None end
  end.

Definition input_fast (r : tail_count) (limit : nat) (ks : list nat) (mr full : cfile)
           (window : option (log * N)) (l : log) (a : N) : option (log * N) :=
  match mr_effective mr full with
  | None => after_loop window l a
  | Some m =>
    match tail_loop r limit ks m (head_of full) a with
    | RReturn evs from => Some (evs, from)
    | RFail => None
    | _ => after_loop window l a
    end
  end.

(* the context compiled for a run whose input came through the caches (checkpoint source: the projection of the
   stream; the checkpoint look-ups through `.comp` are c04_latest_checkpoint_transparent_partial's subject) *)
Definition compile_fast (r : tail_count) (P : params) (texts : N -> N) (ks : list nat) (mr full : cfile)
           (window : option (log * N)) (l : log) (a : N) : option (decision * bundle) :=
  match input_fast r (p_limit P) ks mr full window l a with
  | Some (evs, from) => Some (compile_with P texts evs (filter is_ckpt l) from a)
  | None => None
  end.

(* ------------------------------------------------------------------ the classes *)
(* K2m (the messages+runs sidecar is not what a rebuild would write, in a way no scan notices): some suffix of the
   file whose lines all parse is not a suffix of the projection of the truth stream, or the whole file parses and is
   not the whole projection.  A file with unparsable lines anywhere, a torn last line, a zero-length file on a thread
   without messages are all OUTSIDE K2m (faithful); a file re-created by an append after its loss is inside.
   When the file is absent or zero-length: a full sidecar whose every line parses is the truth stream (as for the
   checkpoint sidecar). *)
Definition MrFileFaithful (l : log) (ls : list cline) : Prop :=
  forall p sfx evs, ls = p ++ sfx -> all_good_c sfx = Some evs ->
    exists pre, filter mr_keep l = pre ++ evs /\ (p = [] -> pre = []).
Definition MrFaithful (l : log) (mr full : cfile) : Prop :=
  match seen mr with
  | Some ls => MrFileFaithful l ls
  | None => match full with
            | None => True
            | Some fl => forall fs, all_good_c fl = Some fs -> fs = l
            end
  end.
(* K1 restricted to what this reader uses of the full sidecar: its last line, when it parses, is the last frame of the
   truth stream *)
Definition HeadFaithful (l : log) (full : cfile) : Prop :=
  forall f, head_of full = Some f -> last_frame l = Some f.
(* the seek-window producer, when it answers, hands over an admissible window for the thread's cut (C08 proves this of
   the healthy one: c08_window_path_agrees; its index files are outside this model) *)
Definition WindowSpec (limit : nat) (l : log) (a : N) (window : option (log * N)) : Prop :=
  forall evs from, window = Some (evs, from) ->
    cut_point l a = Some from /\ exists keep, admissible_input keep limit l from evs.


(* ================================================================== the compiler's checkpoint look-ups through the caches *)
(* latest_compaction_checkpoint_for_compile_v1 / hierarchical_compaction_checkpoints_for_compile_v1 (continuities.rs) over
   `.comp.v1.jsonl` and `.comp.idx.v1.jsonl` AS FOUND (continuity_stream_cache.rs
   latest_compaction_checkpoint_before_or_at_seq_v1, hierarchical_compaction_checkpoints_before_or_at_seq_v1,
   compaction_checkpoint_caches_behind_head_v1; compaction_checkpoint_index.rs load_index_v1,
   rebuild_index_from_compaction_sidecar_v1).  A line of the index is the checkpoint frame its entry was written from. *)

(* ensure_compaction_checkpoints_sidecar_best_effort_v1: as found, or built from the full sidecar's checkpoint lines
   (nothing written when there is none).  None = Err *)
Definition comp_effective (comp full : cfile) : option cfile :=
  match seen comp with
  | Some ls => Some (Some ls)
  | None =>
    match full with
    | None => Some None
    | Some fl =>
      match all_good_c fl with
      | Some fs => Some (match filter is_ckpt fs with [] => None | x => Some (map CGood x) end)
      | None => None
      end
    end
  end.

(* the reader's own fold (the scan hands the frames over latest first): larger to_seq wins, on a tie the larger seq *)
Definition better (c b : ckpt) : bool :=
  (ck_to b <? ck_to c) || ((ck_to b =? ck_to c) && (ck_seq b <? ck_seq c)).
Definition latest_step_cache (fixed : bool) (from : N) (best : option ckpt) (f : frame) : option ckpt :=
  match ckpt_of f with
  | Some c =>
    if eligible fixed from c then
      match best with None => Some c | Some b => if better c b then Some c else Some b end
    else best
  | None => best
  end.

Inductive lres := LErr | LNone | LSome (c : ckpt).
(* `me` = the bound of the one backward scan, in lines; a scan that does not reach the start refuses to answer *)
Definition latest_cache (fixed : bool) (me : nat) (comp full : cfile) (from : N) : lres :=
  match comp_effective comp full with
  | None => LErr
  | Some None => LNone
  | Some (Some ls) =>
    match scan_lines me ls with
    | ScErr => LErr
    | ScTail evs cpl =>
      if cpl then match fold_left (latest_step_cache fixed from) (rev evs) None with Some c => LSome c | None => LNone end
      else LErr
    end
  end.

(* load_index_v1: every line parses, at least one entry, seqs do not decrease.  None = Err *)
Fixpoint mono_from (b : N) (fs : log) : bool :=
  match fs with [] => true | f :: r => (b <=? fseq f) && mono_from (fseq f) r end.
Definition idx_load (es : list cline) : option log :=
  match all_good_c es with
  | Some [] => None
  | Some fs => if mono_from 0 fs then Some fs else None
  | None => None
  end.
(* rebuild_index_from_compaction_sidecar_v1 (errors ignored by its callers): every line of the checkpoint sidecar must
   parse and be a checkpoint; nothing to write => the index file is removed; a failure leaves the index as it was *)
Definition idx_rebuild (cl : list cline) (idx : cfile) : cfile :=
  match all_good_c cl with
  | Some fs => if forallb is_ckpt fs then (match fs with [] => None | _ => Some (map CGood fs) end) else idx
  | None => idx
  end.

Inductive hres := HErr | HNone | HSome (entries : log).
Definition hier_cache (comp full idx : cfile) : hres :=
  let ensured : option cfile :=                     (* ensure_compaction_checkpoints_index_best_effort_v1; None = Err *)
    match idx with
    | Some es => Some (Some es)
    | None => match comp_effective comp full with
              | None => None
              | Some None => Some None
              | Some (Some cl) => Some (idx_rebuild cl None)
              end
    end in
  match ensured with
  | None => HErr
  | Some None => HNone
  | Some (Some es) =>
    match idx_load es with
    | Some fs => HSome fs
    | None =>
      match comp_effective comp full with
      | None => HErr
      | Some None => HNone
      | Some (Some cl) =>
        match idx_rebuild cl (Some es) with
        | Some es' => match idx_load es' with Some fs => HSome fs | None => HErr end
        | None => HSome []                          (* load: Ok(None).unwrap_or_default() *)
        end
      end
    end
  end.

(* compaction_checkpoint_caches_behind_head_v1 *)
Definition last_good_seq (ls : list cline) : option N :=
  match last ls CBad with CGood g => Some (fseq g) | CBad => None end.
Definition caches_behind_head (full comp idx : cfile) : bool :=
  match head_of full with
  | Some h =>
    is_ckpt h &&
    ((match comp with
      | Some ls => negb (match last_good_seq ls with Some s => fseq h <=? s | None => false end)
      | None => false
      end)
     || (match idx with
         | Some es => negb (match idx_load es with Some fs => existsb (fun e => fseq h <=? fseq e) fs | None => false end)
         | None => false
         end))
  | None => false
  end.

(* `if let Ok(Some(..)) = cached { return .. }`, else replay_events + the truth loop *)
Definition latest_for_compile (fixed : bool) (me : nat) (full comp idx : cfile) (l : log) (from : N) : option ckpt :=
  match (if caches_behind_head full comp idx then LNone else latest_cache fixed me comp full from) with
  | LSome c => Some c
  | _ => latest_any fixed from l
  end.
Definition hier_for_compile (fixed : bool) (levels : nat) (full comp idx : cfile) (l : log) (from : N) : list ckpt :=
  match (if caches_behind_head full comp idx then HNone else hier_cache comp full idx) with
  | HSome es => hierarchy fixed from levels es
  | _ => hierarchy fixed from levels l
  end.

(* compile_context_bundle_for_run with the two look-ups handed in (Compile.compile_with computes them from one source) *)
Definition compile_core (P : params) (texts : N -> N) (evs : log) (h : list ckpt) (lat : option ckpt)
           (from anchor : N) : decision * bundle :=
  let ended := ended_runs from evs [] in
  match h with
  | [] =>
    let cr := match lat with
              | Some c => if ck_cum c then (1, 0) else (2, 1)
              | None => (0, 0)
              end in
    ({| d_strategy := 0; d_cause := fst cr; d_resets := snd cr; d_ckpts := [] |},
     {| b_strategy := 0; b_from := from; b_anchor := anchor;
        b_items := msg_items texts ended (select_recent evs from (p_limit P)) |})
  | [c] =>
    ({| d_strategy := 1; d_cause := 3; d_resets := 0; d_ckpts := h |},
     {| b_strategy := 1; b_from := from; b_anchor := anchor;
        b_items := ISummary (ck_art c) (ck_to c)
                   :: msg_items texts ended (select_recent_after evs from (ck_to c) (p_limit P)) |})
  | _ =>
    ({| d_strategy := 2; d_cause := 4; d_resets := 0; d_ckpts := h |},
     {| b_strategy := 2; b_from := from; b_anchor := anchor;
        b_items := map (fun c => ISummary (ck_art c) (ck_to c)) h
                   ++ msg_items texts ended (select_recent_after evs from (max_to h) (p_limit P)) |})
  end.

(* the whole read side of a run's context: input through mr / full, checkpoints through comp / comp.idx, all as found *)
Definition compile_cached (r : tail_count) (P : params) (texts : N -> N) (ks : list nat) (me : nat)
           (mr full comp idx : cfile) (window : option (log * N)) (l : log) (a : N) : option (decision * bundle) :=
  match input_fast r (p_limit P) ks mr full window l a with
  | Some (evs, from) =>
    Some (compile_core P texts evs
            (hier_for_compile (p_fixed P) (p_max_refs P) full comp idx l from)
            (latest_for_compile (p_fixed P) me full comp idx l from) from a)
  | None => None
  end.

(* K2 for the compiler's look-ups: a checkpoint sidecar whose every line parses is the projection (absent: a full sidecar
   whose every line parses is the truth stream); an index that loads is the projection *)
Definition CompFaithfulC (l : log) (comp full : cfile) : Prop :=
  match seen comp with
  | Some ls => forall fs, all_good_c ls = Some fs -> fs = filter is_ckpt l
  | None => match full with
            | None => True
            | Some fl => forall fs, all_good_c fl = Some fs -> fs = l
            end
  end.
Definition IdxFaithful (l : log) (idx : cfile) : Prop :=
  match idx with
  | Some es => forall fs, idx_load es = Some fs -> fs = filter is_ckpt l
  | None => True
  end.

(* ------------------------------------------------------------------ observation encoding + case (correspondence) *)
(* what the harness observes of a compile through the caches as found: did it succeed, the recorded cut, the summary
   refs of the bundle (number, to_seq of each), the user messages of the bundle (by seq) *)
Definition is_summary (i : item) : bool := match i with ISummary _ _ => true | _ => false end.
Definition cc_obs (o : option (decision * bundle)) : list N :=
  match o with
  | None => [0]
  | Some (_, b) =>
    [1; b_from b; nlen (filter is_summary (b_items b))]
      ++ flat_map (fun i => match i with ISummary _ t => [t] | _ => [] end) (b_items b)
      ++ flat_map (fun i => match i with IUser s => [s] | _ => [] end) (b_items b)
  end.

(* a cache file by line: Some i = the line is byte-identical to the truth line of frame i (seq = position in a valid
   stream), None = it does not parse *)
Definition cc_lines (fr : log) (ixs : list (option N)) : list cline :=
  map (fun o => match o with
                | Some i => match nth_error fr (N.to_nat i) with Some f => CGood f | None => CBad end
                | None => CBad
                end) ixs.

Record cc_case := {
  cc_l : log;                 (* the thread's frames in events.jsonl *)
  cc_mrf : cfile;             (* <id>.mr.v1.jsonl as found *)
  cc_fullf : cfile;           (* <id>.jsonl as found *)
  cc_compf : cfile;           (* <id>.comp.v1.jsonl as found *)
  cc_idxf : cfile;            (* <id>.comp.idx.v1.jsonl as found: an entry = the checkpoint frame it was written from *)
  cc_me : nat;                (* whole lines inside the one bounded scan of the checkpoint sidecar (10 000 frames / 8 MiB) *)
  cc_budgets : list nat;      (* whole lines inside the last 256 KiB, 512 KiB, .. 8 MiB of the file the tail scan reads *)
  cc_anchor : N;
  cc_expect : list N }.

(* the seek window is left out (None): by c04_compiled_context_transparent_partial it cannot change the answer on a faithful store *)
Definition cc_model_obs (r : tail_count) (limit max_refs : N) (frame_rule : bool) (c : cc_case) : list N :=
  cc_obs (compile_cached r (code_params limit max_refs frame_rule) (fun _ => 0) (cc_budgets c) (cc_me c)
                         (cc_mrf c) (cc_fullf c) (cc_compf c) (cc_idxf c) None (cc_l c) (cc_anchor c)).
Definition cc_check_case (r : tail_count) (limit max_refs : N) (frame_rule : bool) (c : cc_case) : bool :=
  valid_log (cc_l c) && lN_eqb (cc_model_obs r limit max_refs frame_rule c) (cc_expect c).
