(* C18 — the liveness probe `pid_liveness` of crates/ripd/src/local_authority.rs as part of the decision "this authority is
   gone", and the lock protocol of Model/Authority.v with every liveness answer routed through it.

   pid_liveness(pid) = kill(pid, 0), classified by a table: return value 0 -> pt_ok, otherwise the arms of
   `match last_os_error().raw_os_error()` (errno -> liveness, first matching arm wins) and the `_` arm.  The table is read
   from the source on every run (tools/gen/auth_probe.py -> Gen/AuthProbe.v: gen_probe_table).

   kill(2) with signal 0 ("no signal is sent, but existence and permission checks are still performed") is the trusted
   part: `kill0 exists permitted` — a process that does not exist: ESRCH; one that exists and that the caller may not
   signal (another uid, no CAP_KILL): EPERM; otherwise success.  (A zombie exists.)

   Model/Authority.v asks `pid_alive ps p` (the truth) at its three liveness steps Live / LiveM / CoLive.  `micro_p` below
   replaces those three steps by the probe: the caller's kill(p, 0), whose outcome depends on whether the caller MAY signal p
   (`perm caller target`, any relation: uids are not modelled further), classified by the table; everything else is
   `micro`.  Proofs/AuthorityProbeProofs.v: for every table satisfying `probe_wf` and every permission relation the two
   models are the same function (so every theorem about `run` is a theorem about `run_p`), and for the table with
   EPERM -> Dead they are not (a contender of another uid takes the lock of a live authority).  No proofs in this file. *)
From RipV Require Import Base.Prelude.
From RipV Require Export Model.Authority.

Inductive liveness := LvAlive | LvDead | LvUnknown.
Definition liveness_code (l : liveness) : N := match l with LvAlive => 1 | LvDead => 0 | LvUnknown => 2 end.

(* outcome of the system call *)
Inductive probe := PrOk | PrErr (errno : N).
Definition EPERM : N := 1.
Definition ESRCH : N := 3.

Record ptable := {
  pt_signal : N;                      (* the signal number passed to kill: 0 = probe only *)
  pt_ok : liveness;                   (* `if result == 0 { return .. }` *)
  pt_arms : list (N * liveness);      (* `Some(ERRNO) => ..` in source order *)
  pt_default : liveness               (* `_ => ..` *)
}.

Fixpoint arm_lookup (arms : list (N * liveness)) (e : N) (d : liveness) : liveness :=
  match arms with
  | [] => d
  | (k, v) :: r => if k =? e then v else arm_lookup r e d
  end.

Definition liveness_of (t : ptable) (o : probe) : liveness :=
  match o with
  | PrOk => pt_ok t
  | PrErr e => arm_lookup (pt_arms t) e (pt_default t)
  end.

Definition is_dead (l : liveness) : bool := match l with LvDead => true | _ => false end.
Definition is_alive (l : liveness) : bool := match l with LvAlive => true | _ => false end.

(* the callers: `matches!(pid_liveness, PidLiveness::Dead)` / `== PidLiveness::Dead` decide "gone"; Alive and Unknown do not *)
Definition says_alive (t : ptable) (o : probe) : bool := negb (is_dead (liveness_of t o)).

(* kill(pid, 0) — kill(2) *)
Definition kill0 (exists_ permitted : bool) : probe :=
  if exists_ then (if permitted then PrOk else PrErr EPERM) else PrErr ESRCH.

(* the obligation on the extracted table: the call is a probe (signal 0); ONLY errno ESRCH is classified Dead; ESRCH is
   classified Dead (a gone authority is recognised: recovery); success and EPERM — both say the process exists — Alive *)
Definition probe_wf (t : ptable) : bool :=
  (pt_signal t =? 0)
  && is_alive (pt_ok t)
  && negb (is_dead (pt_default t))
  && forallb (fun kv => negb (is_dead (snd kv)) || (fst kv =? ESRCH)) (pt_arms t)
  && is_dead (liveness_of t (PrErr ESRCH))
  && is_alive (liveness_of t (PrErr EPERM)).

(* the table the code is expected to have (and the one the correspondence cases are evaluated with) *)
Definition full_probe_table : ptable :=
  {| pt_signal := 0; pt_ok := LvAlive; pt_arms := [(ESRCH, LvDead); (EPERM, LvAlive)]; pt_default := LvUnknown |}.
(* seeded change C18-9: "a pid owned by somebody else is the dead authority's pid recycled" *)
Definition eperm_dead_table : ptable :=
  {| pt_signal := 0; pt_ok := LvAlive; pt_arms := [(ESRCH, LvDead); (EPERM, LvDead)]; pt_default := LvUnknown |}.

(* ------------------------------------------------------------------ the lock protocol with the probe inside *)
(* perm caller target: may process `caller` signal process `target` *)
Definition probed (t : ptable) (perm : pid -> pid -> bool) (ps : list proc) (me p : pid) : bool :=
  says_alive t (kill0 (pid_alive ps p) (perm me p)).

Definition micro_p (t : ptable) (perm : pid -> pid -> bool) (ag : bool) (s : state) (o : N) (q : proc) : state * proc :=
  let ps := s_procs s in
  let me := p_pid q in
  match p_pc q with
  | Live p => (s, ret ag ps o q (p_guard q) (RLive p (probed t perm ps me p)))
  | LiveM p => (s, ret ag ps o q (p_guard q) (RLiveM p (probed t perm ps me p)))
  | CoLive p => if probed t perm ps me p then (s, ret ag ps o q (p_guard q) (RCorrupt false)) else (s, goto q CoRename)
  | _ => micro ag s o q
  end.

Definition step_p (t : ptable) (perm : pid -> pid -> bool) (ag : bool) (s : state) (e : event) : state :=
  match e with
  | Step i o =>
      match nth_error (s_procs s) i with
      | Some q => if p_alive q
                  then let '(s', q') := micro_p t perm ag s o q in with_procs s' (upd (s_procs s) i q')
                  else s
      | None => s
      end
  | Crash i => step ag s (Crash i)
  end.

Definition run_p (t : ptable) (perm : pid -> pid -> bool) (ag : bool) (s : state) (es : list event) : state :=
  fold_left (step_p t perm ag) es s.

(* ------------------------------------------------------------------ correspondence (T2) *)
(* one real call of pid_liveness: does the probed pid exist, may the calling process signal it *)
Record pcase := { pc_exists : bool; pc_permitted : bool }.
Record case := {
  c_table : ptable;
  c_probes : list pcase;
  c_expect : list N
}.
Definition model_obs (c : case) : list N :=
  map (fun x => liveness_code (liveness_of (c_table c) (kill0 (pc_exists x) (pc_permitted x)))) (c_probes c).
Definition check_case (c : case) : bool := lN_eqb (model_obs c) (c_expect c).
