(* C14 — "an automatic checkpoint is taken before EVERY file-editing tool runs": name resolution.
   ToolRunner::run (crates/rip-tools/src/runtime.rs) decides the automatic checkpoint from the invocation NAME
   (`files_for_invocation`: a match on name literals, `_ => Ok(None)`) and finds the handler through
   ToolRegistry::get, which resolves ALIASES (`register_alias`).  Two tables that must agree: a name that reaches an
   editing handler without reaching that handler's checkpoint arm edits the workspace with nothing to rewind to.
   Executable model only; proofs are in Proofs/ToolDispatchProofs.v.  The tables of this run's /repo are generated
   (tools/gen/toolnames.py -> Gen/ToolNames.v). *)
From RipV Require Import Base.Prelude Base.Fs Model.Paths Model.Checkpoint.
From RipV Require Model.Patch.

(* handler kinds (what the function registered under a name does, read from its module by the extractor):
   0  reads only (no mutating file-system call, no process)
   2  spawns a process (bash: what a shell command does is outside "file-editing tool" and outside this model)
   11 the write tool: run_write on `args.path` (Model/Checkpoint.v write_tool)
   12 apply_patch: Workspace::apply_patch on `args.patch` (Model/Patch.v)
   99 a handler with a mutating file-system call of a shape the extractor does not know
   checkpoint arms of files_for_invocation: 11 = `vec![args.path]` after the two guards, 12 = Patch::parse(&args.patch).affected_paths() *)
Definition K_READ : N := 0.
Definition K_PROCESS : N := 2.
Definition K_WRITE : N := 11.
Definition K_PATCH : N := 12.
Definition edits (k : N) : bool := negb ((k =? K_READ) || (k =? K_PROCESS)).
Definition known_kind (k : N) : bool := (k =? K_READ) || (k =? K_PROCESS) || (k =? K_WRITE) || (k =? K_PATCH).

Record registry := {
  r_tools : list (str * N);      (* ToolRegistry.tools as register_builtin_tools fills it: name -> handler kind *)
  r_aliases : list (str * str);  (* ToolRegistry.aliases: alias -> target *)
  r_arms : list (str * N);       (* files_for_invocation: name literal -> arm kind; every other name: Ok(None) *)
  r_resolved : bool              (* the match is on the resolved (registered) name instead of invocation.name *)
}.

Fixpoint assoc {A} (k : str) (l : list (str * A)) : option A :=
  match l with
  | [] => None
  | (k', v) :: t => if lN_eqb k' k then Some v else assoc k t
  end.

(* a later insert into the HashMap replaces an earlier one: the LAST pair of a name counts *)
Definition hm_get {A} (k : str) (l : list (str * A)) : option A := assoc k (rev l).

(* ToolRegistry::get: a registered name first, then ONE level of alias *)
Definition handler_of (r : registry) (name : str) : option N :=
  match hm_get name (r_tools r) with
  | Some k => Some k
  | None => match hm_get name (r_aliases r) with
            | Some t => hm_get t (r_tools r)
            | None => None
            end
  end.

Definition canon (r : registry) (name : str) : str :=
  match hm_get name (r_tools r) with
  | Some _ => name
  | None => match hm_get name (r_aliases r) with Some t => t | None => name end
  end.

(* the arm of files_for_invocation an invocation under this name reaches (first matching arm) *)
Definition arm_of (r : registry) (name : str) : option N :=
  assoc (if r_resolved r then canon r name else name) (r_arms r).

(* every name the registry can resolve *)
Definition names_of (r : registry) : list str := map fst (r_tools r) ++ map fst (r_aliases r).

(* a name that reaches an editing handler reaches that handler's checkpoint arm *)
Definition name_ok (r : registry) (name : str) : bool :=
  match handler_of r name with
  | None => true
  | Some k => known_kind k && (if edits k then option_eqb N.eqb (arm_of r name) (Some k) else true)
  end.

Definition registry_wf (r : registry) : bool := forallb (name_ok r) (names_of r).

(* `found`: the extractor recognised the shape of ToolRegistry::get (registered name, then one level of alias), of
   files_for_invocation (a match on `invocation.name.as_str()` whose last arm is `_ => Ok(None)`), and found no other
   registration site *)
Definition dispatch_wf (found : bool) (r : registry) : bool := found && registry_wf r.

(* ---------- one invocation through ToolRunner::run ---------- *)
Inductive targ :=
| AWrite (raw ext : str) (mode : N) (data : bytes)   (* {"path", "content", "atomic" / "append" / "create"}; ext = the temp extension *)
| APatch (text : list N).                             (* {"patch"} *)

(* the handler: arguments of the other shape fail to deserialize (`invalid args`, nothing touched) *)
Definition handler_run (ts : list N) (k : N) (f : fs) (a : targ) : fs :=
  match a with
  | AWrite raw ext mode data => if k =? K_WRITE then fst (write_tool ts f raw ext mode data) else f
  | APatch text => if k =? K_PATCH then Patch.out_fs (Patch.apply_patch true [] f text) else f
  end.

(* the arm: the checkpoint it takes (None: `checkpoint_failed` - arguments of the other shape, a refused path, a patch
   that does not parse, a directory - the tool runs all the same) *)
Definition arm_checkpoint (as_ : list N) (ak : N) (f : fs) (root : str) (a : targ) : option (list entry) :=
  match a with
  | AWrite raw _ _ _ => if ak =? K_WRITE then auto_checkpoint as_ f root raw else None
  | APatch text =>
    if ak =? K_PATCH then
      match Patch.parse_patch text with
      | Some ops => match create f root (Patch.affected_paths ops) with Ok ck => Some ck | Err _ => None end
      | None => None
      end
    else None
  end.

(* ToolRunner::run: emit_checkpoint_events (by name), then registry.get(name) and the handler *)
Definition run_tool (r : registry) (ts as_ : list N) (f : fs) (root name : str) (a : targ) : option (list entry) * fs :=
  (match arm_of r name with Some ak => arm_checkpoint as_ ak f root a | None => None end,
   match handler_of r name with Some k => handler_run ts k f a | None => f end).

(* what the theorems ask of the argument: atomic write - the temporary name is not taken (Uuid::new_v4);
   patch - no affected path lies strictly below another affected path that is not a directory (finding S10j) *)
Definition arg_ok (ts : list N) (f : fs) (a : targ) : Prop :=
  match a with
  | AWrite raw ext mode _ => mode = 0 -> forall x, arg_interp ts raw = Ok x -> lookup f (t_path (tmp_tgt x ext)) = None
  | APatch text =>
    forall ops, Patch.parse_patch text = Some ops ->
    forall p q, In p (Patch.affected_paths ops) -> In q (Patch.affected_paths ops) ->
      (exists s, comps q = comps p ++ s /\ comps p <> [] /\ s <> []) -> lookup f (comps p) = Some Dir
  end.

(* ---------- the tables as this build expects them (compared with the generated ones by the obligation only through
   registry_wf: the theorems hold for EVERY well-formed registry) ---------- *)
Definition n_write : str := [119; 114; 105; 116; 101].                                        (* "write" *)
Definition n_apply_patch : str := [97; 112; 112; 108; 121; 95; 112; 97; 116; 99; 104].       (* "apply_patch" *)
Definition n_bash : str := [98; 97; 115; 104].                                                (* "bash" *)
Definition n_shell : str := [115; 104; 101; 108; 108].                                        (* "shell" *)
Definition n_read : str := [114; 101; 97; 100].                                               (* "read" *)
Definition n_write_file : str := [119; 114; 105; 116; 101; 95; 102; 105; 108; 101].          (* "write_file" *)
Definition n_patch : str := [112; 97; 116; 99; 104].                                          (* "patch" *)

Definition small_registry : registry :=
  {| r_tools := [(n_read, K_READ); (n_write, K_WRITE); (n_apply_patch, K_PATCH); (n_bash, K_PROCESS)];
     r_aliases := [(n_shell, n_bash)];
     r_arms := [(n_write, K_WRITE); (n_apply_patch, K_PATCH)];
     r_resolved := false |}.

(* seeded change C14-9: two more aliases, the match stays on the literal name *)
Definition aliased_registry : registry :=
  {| r_tools := r_tools small_registry;
     r_aliases := [(n_shell, n_bash); (n_write_file, n_write); (n_patch, n_apply_patch)];
     r_arms := r_arms small_registry;
     r_resolved := false |}.

(* two repairs: the arms list the aliases / the match is on the resolved name *)
Definition aliased_arms_registry : registry :=
  {| r_tools := r_tools small_registry;
     r_aliases := r_aliases aliased_registry;
     r_arms := [(n_write, K_WRITE); (n_write_file, K_WRITE); (n_apply_patch, K_PATCH); (n_patch, K_PATCH)];
     r_resolved := false |}.
Definition aliased_resolved_registry : registry :=
  {| r_tools := r_tools small_registry;
     r_aliases := r_aliases aliased_registry;
     r_arms := r_arms small_registry;
     r_resolved := true |}.
