(* C05 — executable model of the ON-DISK effects of rip's write paths and of restart.
   rip-log/src/lib.rs (EventLog::append), ripd/src/continuities.rs (append paths, load_next_seq_for,
   replay_events, ensure_default, create_continuity, branch/handoff, save_index),
   ripd/src/continuity_stream_cache.rs (append_best_effort, rebuild_best_effort, try_replay,
   try_read_last_seq), artifact blob writes.  No proofs here (Proofs/CrashProofs.v).

   A file is a list of chunks: a frame body (one serialized JSON object, written by one write_all)
   or a newline.  Every operation is compiled, from the state it starts in, to a straight-line list of
   instructions (file-system effects, volatile updates, named crash points) in source order;
   `crash k` = the state after the first k instructions with everything volatile dropped. *)
From RipV Require Import Base.Prelude.

Definition CAP : N := 8192.            (* std::io::BufWriter default capacity *)

Record frame := { f_sid : N; f_seq : N; f_fid : N; f_len : N; f_art : option N }.
(* f_sid: 2*c for continuity c, 2*s+1 for session/task stream s.  f_fid: identity of the frame
   (4*op index + j).  f_len: byte length of the serialized frame (without the newline).
   f_art: artifact the frame references (checkpoint / handoff summary). *)
Inductive chunk := Body (f : frame) | NL.
Definition chunk_len (c : chunk) : N := match c with Body f => f_len f | NL => 1 end.
Definition clen (cs : list chunk) : N := sumN (map chunk_len cs).

(* ---------- BufWriter<File> (std): write_all / flush ---------- *)
Record bufw := { bw_buf : list chunk; bw_len : N }.
Definition bw_empty : bufw := {| bw_buf := []; bw_len := 0 |}.

(* write_all(buf): if len < spare -> buffer; else { if len > spare -> flush_buf; if len >= cap ->
   write straight to the file else buffer }.  A direct write (len >= cap) always finds the buffer empty: it was
   either flushed just before (len > spare) or len = spare = cap, i.e. nothing is buffered; the model writes
   "buffer, then the data" in both cases. *)
Definition bw_write (file : list chunk) (w : bufw) (cs : list chunk) (len : N) : list chunk * bufw :=
  let spare := CAP - bw_len w in
  if len <? spare then (file, {| bw_buf := bw_buf w ++ cs; bw_len := bw_len w + len |})
  else if CAP <=? len then (file ++ bw_buf w ++ cs, bw_empty)
  else if spare <? len then (file ++ bw_buf w, {| bw_buf := cs; bw_len := len |})
  else (file, {| bw_buf := bw_buf w ++ cs; bw_len := bw_len w + len |}).

Definition bw_flush (file : list chunk) (w : bufw) : list chunk * bufw := (file ++ bw_buf w, bw_empty).

(* ---------- association lists ---------- *)
Fixpoint get {V} (k : N) (m : list (N * V)) : option V :=
  match m with
  | [] => None
  | (k', v) :: r => if k =? k' then Some v else get k r
  end.
Fixpoint put {V} (k : N) (v : V) (m : list (N * V)) : list (N * V) :=
  match m with
  | [] => [(k, v)]
  | (k', v') :: r => if k =? k' then (k, v) :: r else (k', v') :: put k v r
  end.
Fixpoint del {V} (k : N) (m : list (N * V)) : list (N * V) :=
  match m with
  | [] => []
  | (k', v') :: r => if k =? k' then r else (k', v') :: del k r
  end.

(* ---------- state ---------- *)
Record idxv := { ix_default : option N; ix_known : list N }.     (* continuities/index.json *)
Definition idx_empty : idxv := {| ix_default := None; ix_known := [] |}.

Record st := {
  truth : list chunk;            (* data/events.jsonl on disk *)
  tw : bufw;                     (* the EventLog's BufWriter (volatile) *)
  sides : list (N * list chunk); (* continuity_streams/<c>.jsonl on disk *)
  sw : bufw;                     (* the per-call sidecar BufWriter (volatile) *)
  nexts : list (N * N);          (* in-memory next_seq per continuity (key 2c) / session counter (key 2s+1) *)
  idx : option idxv;             (* index.json on disk *)
  idx_tmp : option idxv;         (* index.json.tmp on disk *)
  midx : idxv;                   (* in-memory index *)
  arts : list N;                 (* artifact blobs on disk (complete) *)
  art_tmps : list N;             (* <id>.tmp blobs on disk *)
  acks : list N                  (* ghost: ids of the frames whose append was acknowledged to the caller *)
}.

Definition init : st :=
  {| truth := []; tw := bw_empty; sides := []; sw := bw_empty; nexts := []; idx := None; idx_tmp := None;
     midx := idx_empty; arts := []; art_tmps := []; acks := [] |}.

(* restart: the disk survives, everything in memory is gone; ContinuityStore::new loads index.json *)
Definition recover (s : st) : st :=
  {| truth := truth s; tw := bw_empty; sides := sides s; sw := bw_empty; nexts := [];
     idx := idx s; idx_tmp := idx_tmp s;
     midx := match idx s with Some i => i | None => idx_empty end;
     arts := arts s; art_tmps := art_tmps s; acks := acks s |}.

(* ---------- reading files ---------- *)
(* lines of a JSONL file; a final unterminated segment is a line too (BufRead::lines) *)
Fixpoint lines_acc (cur : list frame) (ch : list chunk) : list (list frame) :=
  match ch with
  | [] => match cur with [] => [] | _ => [cur] end
  | Body f :: r => lines_acc (cur ++ [f]) r
  | NL :: r => cur :: lines_acc [] r
  end.
Definition lines (ch : list chunk) : list (list frame) := lines_acc [] ch.

Definition torn (ch : list chunk) : bool :=
  match rev ch with Body _ :: _ => true | _ => false end.

(* every line is exactly one JSON object *)
Fixpoint parse_lines (ls : list (list frame)) : option (list frame) :=
  match ls with
  | [] => Some []
  | [f] :: r => option_map (cons f) (parse_lines r)
  | _ :: _ => None
  end.
Definition parse (ch : list chunk) : option (list frame) := parse_lines (lines ch).

(* rip-log validate_event_order: one counter per stream *)
Fixpoint validate_from (cnt : list (N * N)) (fs : list frame) : bool :=
  match fs with
  | [] => true
  | f :: r =>
    let e := match get (f_sid f) cnt with Some n => n | None => 0 end in
    if f_seq f =? e then validate_from (put (f_sid f) (e + 1) cnt) r else false
  end.
Definition validate (fs : list frame) : bool := validate_from [] fs.

(* EventLog::replay_validated *)
Definition replay_validated (s : st) : option (list frame) :=
  match parse (truth s) with
  | Some fs => if validate fs then Some fs else None
  | None => None
  end.

Definition stream (sid : N) (fs : list frame) : list frame := filter (fun f => f_sid f =? sid) fs.

Definition last_opt {A} (l : list A) : option A := hd_error (rev l).

(* try_read_last_seq on the full sidecar: the last non-empty line must be one JSON object.
   None = file absent (Ok(None)), empty or unreadable tail (Err): the caller falls back *)
Definition side_tail_seq (s : st) (c : N) : option N :=
  match get c (sides s) with
  | None => None
  | Some ch =>
    match last_opt (lines ch) with
    | Some [f] => Some (f_seq f)
    | _ => None
    end
  end.

Fixpoint seqs_from (n : N) (fs : list frame) : bool :=
  match fs with
  | [] => true
  | f :: r => (f_seq f =? n) && seqs_from (n + 1) r
  end.

(* ContinuityStreamCache::try_replay: Some evs iff the file exists, every line is one frame, seqs are
   0,1,2,.. and there is at least one *)
Definition try_replay (s : st) (c : N) : option (list frame) :=
  match get c (sides s) with
  | None => None
  | Some ch =>
    match parse ch with
    | Some (f :: r) => if seqs_from 0 (f :: r) then Some (f :: r) else None
    | _ => None
    end
  end.

(* ---------- instructions ---------- *)
Inductive instr :=
| IPt (tag : N)                                   (* a named rip_verif point: no effect *)
| ITruthWrite (cs : list chunk)                   (* write_all on the EventLog writer *)
| ITruthFlush
| ISideOpen (c : N)                               (* OpenOptions::create(true).append(true) + BufWriter::new *)
| ISideCreate (c : N)                             (* File::create: truncates *)
| ISideWrite (c : N) (cs : list chunk)
| ISideFlush (c : N)
| ISideRemove (c : N)                             (* the cache file is lost (external) *)
| ITmpCreate (c : N)                              (* rebuild: File::create(<sidecar>.tmp); the temporary file is not part of *)
| ITmpWrite (c : N) (cs : list chunk)             (* the modelled state: nothing reads it, a crash leaves it behind,          *)
| ITmpFlush (c : N)                               (* the next rebuild truncates it                                            *)
| ISideRename (c : N) (whole : list chunk)        (* fs::rename(tmp, sidecar): the sidecar becomes the whole rewritten file   *)
| ISetNext (k n : N)
| IIdxMem (dflt : option N) (add : option N)
| IIdxTmp                                         (* fs::write(index.json.tmp, payload) *)
| IIdxRename                                      (* fs::rename(tmp, index.json) *)
| IIdxRemove                                      (* fs::remove_file(index.json): NOT in rip's save_index; the seeded
                                                     "clear the destination first" variant (unlink_first below) *)
| IArtTmp (a : N)
| IArtRename (a : N)
| IAck (fid : N)                                  (* ghost: the append of frame fid is acknowledged (the call returns Ok) *)
| IOk.                                            (* ghost: the operation returns Ok *)

Definition side_of (s : st) (c : N) : list chunk := match get c (sides s) with Some ch => ch | None => [] end.

Definition upd_truth (s : st) (t : list chunk) (w : bufw) : st :=
  {| truth := t; tw := w; sides := sides s; sw := sw s; nexts := nexts s; idx := idx s; idx_tmp := idx_tmp s;
     midx := midx s; arts := arts s; art_tmps := art_tmps s; acks := acks s |}.
Definition upd_sides (s : st) (m : list (N * list chunk)) (w : bufw) : st :=
  {| truth := truth s; tw := tw s; sides := m; sw := w; nexts := nexts s; idx := idx s; idx_tmp := idx_tmp s;
     midx := midx s; arts := arts s; art_tmps := art_tmps s; acks := acks s |}.
Definition upd_nexts (s : st) (m : list (N * N)) : st :=
  {| truth := truth s; tw := tw s; sides := sides s; sw := sw s; nexts := m; idx := idx s; idx_tmp := idx_tmp s;
     midx := midx s; arts := arts s; art_tmps := art_tmps s; acks := acks s |}.
Definition upd_idx (s : st) (i t : option idxv) (m : idxv) : st :=
  {| truth := truth s; tw := tw s; sides := sides s; sw := sw s; nexts := nexts s; idx := i; idx_tmp := t;
     midx := m; arts := arts s; art_tmps := art_tmps s; acks := acks s |}.
Definition upd_arts (s : st) (a t : list N) : st :=
  {| truth := truth s; tw := tw s; sides := sides s; sw := sw s; nexts := nexts s; idx := idx s; idx_tmp := idx_tmp s;
     midx := midx s; arts := a; art_tmps := t; acks := acks s |}.
Definition upd_acks (s : st) (a : list N) : st :=
  {| truth := truth s; tw := tw s; sides := sides s; sw := sw s; nexts := nexts s; idx := idx s; idx_tmp := idx_tmp s;
     midx := midx s; arts := arts s; art_tmps := art_tmps s; acks := a |}.

Definition exec (s : st) (i : instr) : st :=
  match i with
  | IPt _ => s
  | ITruthWrite cs => let r := bw_write (truth s) (tw s) cs (clen cs) in upd_truth s (fst r) (snd r)
  | ITruthFlush => let r := bw_flush (truth s) (tw s) in upd_truth s (fst r) (snd r)
  | ISideOpen c => upd_sides s (put c (side_of s c) (sides s)) bw_empty
  | ISideCreate c => upd_sides s (put c [] (sides s)) bw_empty
  | ISideWrite c cs => let r := bw_write (side_of s c) (sw s) cs (clen cs) in upd_sides s (put c (fst r) (sides s)) (snd r)
  | ISideFlush c => let r := bw_flush (side_of s c) (sw s) in upd_sides s (put c (fst r) (sides s)) (snd r)
  | ISideRemove c => upd_sides s (del c (sides s)) (sw s)
  | ITmpCreate _ | ITmpWrite _ _ | ITmpFlush _ => s
  | ISideRename c whole => upd_sides s (put c whole (sides s)) (sw s)
  | ISetNext k n => upd_nexts s (put k n (nexts s))
  | IIdxMem d a =>
    upd_idx s (idx s) (idx_tmp s)
      {| ix_default := match d with Some x => Some x | None => ix_default (midx s) end;
         ix_known := match a with Some x => ix_known (midx s) ++ [x] | None => ix_known (midx s) end |}
  | IIdxTmp => upd_idx s (idx s) (Some (midx s)) (midx s)
  | IIdxRename => match idx_tmp s with Some t => upd_idx s (Some t) None (midx s) | None => s end
  | IIdxRemove => upd_idx s None (idx_tmp s) (midx s)
  | IArtTmp a => upd_arts s (arts s) (a :: art_tmps s)
  | IArtRename a => upd_arts s (a :: arts s) (filter (fun x => negb (x =? a)) (art_tmps s))
  | IAck f => upd_acks s (acks s ++ [f])
  | IOk => s
  end.

Definition run_instrs (s : st) (is : list instr) : st := fold_left exec is s.

(* ---------- operations ---------- *)
Inductive op :=
| OEnsure (c : N) (len : N)                  (* ensure_default; c = id of the thread if one is created *)
| OAppend (c : N) (len : N)                  (* any of the eleven locked continuity appends *)
| OSess (s : N) (len : N)                    (* a session/task frame through EventLog::append *)
| OCheckpoint (c : N) (a : N) (has_msg : bool) (len : N)   (* compaction_checkpoint_cumulative_v1 *)
| OBranch (p c : N) (len0 len1 : N)
| OHandoff (p c : N) (a : N) (len0 len1 : N)
| ODropRead (c : N).                         (* full sidecar lost, then replay_events *)

(* which version of the code: fw = the truth-log writer issues ONE write for line + "\n" (repo bd2ee56;
   false = the two writes before it, suspicion S7); fr = load_next_seq_for numbers from the truth log and
   only trusts a sidecar whose tail agrees with it (the S3 repair; false = sidecar tail first) *)
(* ff = EventLog::append flushes after EVERY frame (false = output-chunk frames of session / task streams are
   left in the BufWriter until a later frame flushes them: the acknowledged append is not on disk) *)
Record ver := { fw : bool; fr : bool; ff : bool }.
Definition fixed : ver := {| fw := true; fr := true; ff := true |}.

Definition truth_append_gen (one_write flush : bool) (f : frame) : list instr :=
  (if one_write then [IPt 1; IPt 2; ITruthWrite [Body f; NL]; IPt 3; IPt 4]
   else [IPt 1; IPt 2; ITruthWrite [Body f]; IPt 3; ITruthWrite [NL]; IPt 4])
  ++ (if flush then [ITruthFlush] else []) ++ [IPt 5].
Definition truth_append (v : ver) (f : frame) : list instr := truth_append_gen (fw v) true f.
(* a session / task stream frame (OSess): the only frames the flush decision can differ for *)
Definition sess_append (v : ver) (f : frame) : list instr := truth_append_gen (fw v) (ff v) f.

(* ContinuityStreamCache::append_best_effort, full sidecar part: line + "\n" in ONE write into a fresh
   BufWriter (since the S7-derived repair in /repo; before it body and newline were two writes, as in the
   truth log before bd2ee56).  The derived sidecars and indexes are not modelled; the harness checks their
   crash points with the oracle only. *)
Definition side_append (c : N) (f : frame) : list instr :=
  [ISideOpen c; IPt 21; ISideWrite c [Body f; NL]; IPt 22; IPt 23; ISideFlush c; IPt 24].

Definition save_index : list instr := [IPt 51; IIdxTmp; IPt 52; IIdxRename; IPt 53].
Definition write_blob (a : N) : list instr := [IPt 54; IArtTmp a; IPt 55; IArtRename a; IPt 56].

Definition mkf (sid seq fid len : N) (art : option N) : frame := {| f_sid := sid; f_seq := seq; f_fid := fid; f_len := len; f_art := art |}.

(* rebuild_best_effort (since the S3-live repair): the lines go to a temporary file (File::create, two writes per line
   through one BufWriter, flush at the end) which is then renamed over the sidecar: at every crash point the sidecar is
   the file as it was or the whole new file.  `rebuild_in_place` is the function before the repair: File::create on the
   sidecar itself (truncate), so a crash - or a concurrent reader - found any prefix of the rewrite. *)
Definition rebuild (c : N) (evs : list frame) : list instr :=
  [ITmpCreate c; IPt 61]
  ++ flat_map (fun f => [ITmpWrite c [Body f]; IPt 62; ITmpWrite c [NL]; IPt 63]) evs
  ++ [ITmpFlush c; IPt 64; ISideRename c (flat_map (fun f => [Body f; NL]) evs)].
Definition rebuild_in_place (c : N) (evs : list frame) : list instr :=
  [ISideCreate c; IPt 61]
  ++ flat_map (fun f => [ISideWrite c [Body f]; IPt 62; ISideWrite c [NL]; IPt 63]) evs
  ++ [ISideFlush c; IPt 64].

Definition rebuild_nonempty (c : N) (evs : list frame) : list instr :=
  match evs with [] => [] | _ => rebuild c evs end.

(* ContinuityStore::replay_events: (instructions, result); None = Err *)
Definition replay_events (s : st) (c : N) : list instr * option (list frame) :=
  match try_replay s c with
  | Some evs => ([], Some evs)
  | None =>
    match replay_validated s with
    | None => ([], None)
    | Some fs => let evs := stream (2 * c) fs in (rebuild_nonempty c evs, Some evs)
    end
  end.

(* EventLog::last_seq: the log read backwards up to the first frame of the stream; a line that is not one
   frame is an error, an empty line is skipped *)
Inductive tl := TlErr | TlNone | TlSome (q : N).
Fixpoint scan_last (sid : N) (rls : list (list frame)) : tl :=
  match rls with
  | [] => TlNone
  | [] :: r => scan_last sid r
  | [f] :: r => if f_sid f =? sid then TlSome (f_seq f) else scan_last sid r
  | _ :: _ => TlErr
  end.
Definition truth_last (s : st) (sid : N) : tl := scan_last sid (rev (lines (truth s))).

(* load_next_seq_for before the repair: sidecar tail, else replay_events *)
Definition load_next_unfixed (s : st) (c : N) : list instr * option N :=
  match side_tail_seq s c with
  | Some q => ([], Some (q + 1))
  | None =>
    let r := replay_events s c in
    match snd r with
    | Some evs => match last_opt evs with Some f => (fst r, Some (f_seq f + 1)) | None => (fst r, None) end
    | None => (fst r, None)
    end
  end.

(* load_next_seq_for as repaired: the truth log decides; a sidecar whose tail disagrees is rebuilt (best
   effort: only when the whole log validates); a log without the stream = NotFound; an unreadable log tail
   = the behaviour before the repair (appends stay available from the sidecar) *)
Definition load_next_fixed (s : st) (c : N) : list instr * option N :=
  match truth_last s (2 * c) with
  | TlSome q =>
    if match side_tail_seq s c with Some q' => q' =? q | None => false end then ([], Some (q + 1))
    else
      match replay_validated s with
      | None => ([], Some (q + 1))
      | Some fs => (rebuild_nonempty c (stream (2 * c) fs), Some (q + 1))
      end
  | TlNone => ([], None)
  | TlErr => load_next_unfixed s c
  end.

(* seq resolution of a locked append: next_seq map, else load_next_seq_for.  (instructions, seq); None =
   the append returns Err *)
Definition resolve (v : ver) (s : st) (c : N) : list instr * option N :=
  match get (2 * c) (nexts s) with
  | Some n => ([], Some n)
  | None => if fr v then load_next_fixed s c else load_next_unfixed s c
  end.

Definition locked_append (v : ver) (s : st) (c : N) (fid len : N) (art : option N) : list instr :=
  let r := resolve v s c in
  [IPt 11; IPt 12] ++ fst r ++
  match snd r with
  | None => []
  | Some seq =>
    let f := mkf (2 * c) seq fid len art in
    truth_append v f ++ [IPt 13] ++ side_append c f
    ++ [IPt 14; IPt 15; ISetNext (2 * c) (seq + 1); IPt 16; IAck fid; IOk]
  end.

(* create_continuity (create_continuity_locked since /repo 3ef7dd4: the seq mutex is taken first and held by
   branch / handoff until the child's counter is set): fixed seq 0, index saved, then next_seq := 1 *)
Definition create (v : ver) (c : N) (fid len : N) (dflt : bool) : list instr :=
  let f := mkf (2 * c) 0 fid len None in
  [IPt 11; IPt 12] ++ truth_append v f ++ [IPt 13] ++ side_append c f ++ [IPt 14; IPt 15]
  ++ [IIdxMem (if dflt then Some c else None) (Some c)] ++ save_index
  ++ [IPt 19; IPt 17; ISetNext (2 * c) 1; IPt 18].

(* the most recently created continuity in a validated log (all threads share the workspace key) *)
Definition latest_created (fs : list frame) : option N :=
  option_map (fun f => f_sid f / 2) (last_opt (filter (fun f => (f_seq f =? 0) && (N.even (f_sid f))) fs)).

(* branch / handoff child: created (seq 0), then the link frame with the fixed seq 1, next_seq := 2 *)
Definition child (v : ver) (c : N) (i : N) (len0 len1 : N) (blob : list instr) (art : option N) : list instr :=
  let f1 := mkf (2 * c) 1 (4 * i + 1) len1 art in
  create v c (4 * i) len0 false ++ blob
  ++ truth_append v f1 ++ [IPt 13] ++ side_append c f1
  ++ [IPt 14; IPt 15; IPt 17; ISetNext (2 * c) 2; IPt 18; IAck (4 * i); IAck (4 * i + 1); IOk].

Definition compile (v : ver) (s : st) (i : N) (o : op) : list instr :=
  match o with
  | OEnsure c len =>
    match ix_default (midx s) with
    | Some _ => [IOk]
    | None =>
      match replay_validated s with
      | None => []
      | Some fs =>
        match latest_created fs with
        | Some d => [IIdxMem (Some d) None] ++ save_index ++ [IOk]
        | None => create v c (4 * i) len true ++ [IAck (4 * i); IOk]
        end
      end
    end
  | OAppend c len => locked_append v s c (4 * i) len None
  | OSess x len =>
    let n := match get (2 * x + 1) (nexts s) with Some n => n | None => 0 end in
    sess_append v (mkf (2 * x + 1) n (4 * i) len None) ++ [ISetNext (2 * x + 1) (n + 1); IAck (4 * i); IOk]
  | OCheckpoint c a has_msg len =>
    let r := replay_events s c in
    fst r ++
    match snd r with
    | Some (_ :: _) =>
      if has_msg then
        let s1 := run_instrs s (fst r) in
        write_blob a ++ locked_append v s1 c (4 * i) len (Some a)
      else []
    | _ => []
    end
  | OBranch p c len0 len1 =>
    let r := replay_events s p in
    fst r ++ match snd r with Some (_ :: _) => child v c i len0 len1 [] None | _ => [] end
  | OHandoff p c a len0 len1 =>
    let r := replay_events s p in
    (* the context bundle is written before the child is created (/repo 1b99e74) *)
    fst r ++ match snd r with Some (_ :: _) => write_blob a ++ child v c i len0 len1 [] (Some a) | _ => [] end
  | ODropRead c =>
    let s1 := exec s (ISideRemove c) in
    ISideRemove c :: fst (replay_events s1 c)
  end.

(* run whole operations *)
Fixpoint run_ops (v : ver) (s : st) (i : N) (ops : list op) : st :=
  match ops with
  | [] => s
  | o :: r => run_ops v (run_instrs s (compile v s i o)) (i + 1) r
  end.

(* the first k instructions of a history *)
Fixpoint run_k (v : ver) (k : nat) (s : st) (i : N) (ops : list op) : st :=
  match ops with
  | [] => s
  | o :: r =>
    let is := compile v s i o in
    if Nat.leb k (length is) then run_instrs s (firstn k is)
    else run_k v (k - length is) (run_instrs s is) (i + 1) r
  end.

(* process death after the first k instructions of the history, then restart *)
Definition crash (v : ver) (k : nat) (hist : list op) : st := recover (run_k v k init 0 hist).

(* ANY NUMBER of crash / restart rounds: round (ops, k) runs the first k instructions of its operations from the
   recovered state of the previous round, then the process dies again and restarts (so a crash may hit the recovery
   work itself: the sidecar rebuild of the first append, the index back-fill of ensure_default, ..); operation
   indices continue across rounds.  Result: the restarted state and the next operation index *)
Fixpoint run_rounds (v : ver) (s : st) (i : N) (rs : list (list op * nat)) : st * N :=
  match rs with
  | [] => (s, i)
  | (ops, k) :: r => run_rounds v (recover (run_k v k s i ops)) (i + nlen ops) r
  end.

(* how many operations of the history are complete after its first k instructions (same branching as run_k) *)
Fixpoint done_ops (v : ver) (k : nat) (s : st) (i : N) (ops : list op) : nat :=
  match ops with
  | [] => O
  | o :: r =>
    let is := compile v s i o in
    if Nat.leb k (length is) then O
    else S (done_ops v (k - length is) (run_instrs s is) (i + 1) r)
  end.

(* ---------- a code variant as a program transformer: the same operations with every program rewritten by `tr` ----------
   unlink_first = "rename() does not replace an existing destination on every platform: clear it first"
   (fs::remove_file(path) inserted before fs::rename(tmp, path), the pattern local_authority.rs uses): the atomic
   replace of index.json becomes two effects *)
Definition unlink_first (is : list instr) : list instr :=
  flat_map (fun i => match i with IIdxRename => [IIdxRemove; IIdxRename] | _ => [i] end) is.
Fixpoint run_kx (tr : list instr -> list instr) (v : ver) (k : nat) (s : st) (i : N) (ops : list op) : st :=
  match ops with
  | [] => s
  | o :: r =>
    let is := tr (compile v s i o) in
    if Nat.leb k (length is) then run_instrs s (firstn k is)
    else run_kx tr v (k - length is) (run_instrs s is) (i + 1) r
  end.
Definition crashx (tr : list instr -> list instr) (v : ver) (k : nat) (hist : list op) : st := recover (run_kx tr v k init 0 hist).

(* ---------- rip_log::write_snapshot (the file only; its relation to the log is checked by the harness oracle) ----------
   File::create (truncates), BufWriter::new, ONE write_all of the whole pretty-printed JSON array, flush.  A snapshot
   file is absent, or holds a list of chunks; the payload is what the one write_all hands over *)
Inductive sinstr := SPt (tag : N) | SCreate | SWrite (cs : list chunk) | SFlush.
Definition sexec (st : option (list chunk) * bufw) (i : sinstr) : option (list chunk) * bufw :=
  match i with
  | SPt _ => st
  | SCreate => (Some [], bw_empty)
  | SWrite cs => let r := bw_write (match fst st with Some f => f | None => [] end) (snd st) cs (clen cs) in (Some (fst r), snd r)
  | SFlush => let r := bw_flush (match fst st with Some f => f | None => [] end) (snd st) in (Some (fst r), snd r)
  end.
Definition snap_prog (payload : list chunk) : list sinstr := [SCreate; SPt 71; SWrite payload; SPt 72; SFlush; SPt 73].
(* the file after the process died having executed the first k instructions (the BufWriter is gone) *)
Definition snap_crash (old : option (list chunk)) (payload : list chunk) (k : nat) : option (list chunk) :=
  fst (fold_left sexec (firstn k (snap_prog payload)) (old, bw_empty)).
Definition sinstr_code (i : sinstr) : list N :=
  match i with SPt t => [t] | SCreate => [140] | SWrite _ => [141] | SFlush => [142] end.

(* ---------- correspondence ---------- *)
Definition is_pt (i : instr) : option N := match i with IPt t => Some t | _ => None end.

(* state right after the n-th (0-based) named point of the history, and that point's tag *)
Fixpoint upto_point (n : nat) (s : st) (is : list instr) : (st * N) + (st * nat) :=
  match is with
  | [] => inr (s, n)
  | i :: r =>
    let s' := exec s i in
    match is_pt i with
    | Some t => match n with O => inl (s', t) | S n' => upto_point n' s' r end
    | None => upto_point n s' r
    end
  end.
Fixpoint crash_at_point (v : ver) (n : nat) (s : st) (i : N) (ops : list op) : st * N :=
  match ops with
  | [] => (s, 0)
  | o :: r =>
    (* IPt 99 = "op.returned": the harness also snapshots the store right after every capability call *)
    match upto_point n s (compile v s i o ++ [IPt 99]) with
    | inl res => res
    | inr (s', n') => crash_at_point v n' s' (i + 1) r
    end
  end.

Definition enc_file (ch : list chunk) : list N :=
  let ls := lines ch in
  nlen ls :: concat (map (fun l => nlen l :: concat (map (fun f => [f_sid f; f_seq f; f_fid f]) l)) ls)
  ++ [if torn ch then 1 else 0].
(* index.json / index.json.tmp: present?, default thread + 1 (0 = none), for each thread: listed? *)
Definition enc_idx (o : option idxv) (nthreads : nat) : list N :=
  match o with
  | None => [0]
  | Some x =>
    1 :: match ix_default x with Some d => d + 1 | None => 0 end
      :: map (fun c => if existsb (N.eqb (N.of_nat c)) (ix_known x) then 1 else 0) (seq 0 nthreads)
  end.
Definition enc_disk (s : st) (nthreads : nat) : list N :=
  enc_file (truth s)
  ++ concat (map (fun c => match get (N.of_nat c) (sides s) with None => [0] | Some ch => 1 :: enc_file ch end) (seq 0 nthreads))
  ++ enc_idx (idx s) nthreads ++ enc_idx (idx_tmp s) nthreads
  ++ [nlen (arts s); nlen (art_tmps s)].

Definition has_ok (is : list instr) : bool := existsb (fun i => match i with IOk => true | _ => false end) is.
Fixpoint run_ops_res (v : ver) (s : st) (i : N) (ops : list op) : st * list N :=
  match ops with
  | [] => (s, [])
  | o :: r =>
    let is := compile v s i o in
    let res := run_ops_res v (run_instrs s is) (i + 1) r in
    (fst res, (if has_ok is then 1 else 0) :: snd res)
  end.

Definition valid_b (s : st) : bool := match replay_validated s with Some _ => true | None => false end.

Record case := {
  c_hist : list op; c_more_base : N; c_point : nat; c_more : list op;
  c_nthreads0 : nat; c_nthreads1 : nat; c_expect : list N }.

Definition model_obs (c : case) : list N :=
  let cr := crash_at_point fixed (c_point c) init 0 (c_hist c) in
  let d := recover (fst cr) in
  let fin := run_ops_res fixed d (c_more_base c) (c_more c) in
  [snd cr] ++ enc_disk d (c_nthreads0 c) ++ snd fin ++ enc_disk (fst fin) (c_nthreads1 c)
  ++ [if valid_b (fst fin) then 1 else 0].

Definition check_case (c : case) : bool := lN_eqb (model_obs c) (c_expect c).

(* ---------- T1: the effect skeleton of a compiled program (compared with the order of the same effects in
   the Rust source by the obligations of Gen/CrashEffects.v, regenerated by tools/gen/crash_effects.py) ---------- *)
(* named points keep their code (< 100); file-system effects and the counter update get a code >= 101;
   ghost instructions have no counterpart in the source *)
Definition instr_code (i : instr) : list N :=
  match i with
  | IPt t => [t]
  | ITruthWrite _ => [101] | ITruthFlush => [102]
  | ISideOpen _ => [103] | ISideWrite _ _ => [104] | ISideFlush _ => [105]
  | ISetNext _ _ => [106] | IIdxMem _ _ => [107] | IIdxTmp => [108] | IIdxRename => [109] | IIdxRemove => [114]
  | IArtTmp _ => [110] | IArtRename _ => [111] | ISideCreate _ => [112] | ISideRemove _ => [113]
  | ITmpCreate _ => [115] | ITmpWrite _ _ => [116] | ITmpFlush _ => [117] | ISideRename _ _ => [118]
  | IAck _ | IOk => []
  end.
Definition skel (is : list instr) : list N := flat_map instr_code is.
(* source-only effects (no instruction in the model; their position is fixed by the generated spec lists):
   120 broadcast, 121 seq-mutex lock, 122 next_seq.insert(loaded seq), 123 next_seq.get, 124 load_next_seq_for *)
Definition modelled_code (n : N) : bool := n <? 120.

Definition ver_eqb (a b : ver) : bool :=
  Bool.eqb (fw a) (fw b) && Bool.eqb (fr a) (fr b) && Bool.eqb (ff a) (ff b).

(* a state whose in-memory counter of thread 0 is warm (locked appends resolve without touching the disk) *)
Definition st_warm : st := exec init (ISetNext 0 1).
