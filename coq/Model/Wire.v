(* C03 — schema-driven model of rip's frame codec (rip-kernel/src/lib.rs: Event, EventWire, EventKind and
   the serde derive rules they use).  Executable definitions only; proofs are in Proofs/WireProofs.v.
   The schema value itself is regenerated from the Rust source on every run (Gen/EventSchema.v).

   Writer  = `impl Serialize for Event` via EventWire: a JSON object with the envelope keys in order, then the
             flattened internally-tagged payload: the tag key, then the variant's fields in declaration order,
             a field being left out when its skip_serializing_if predicate holds.
   Reader  = `#[derive(Deserialize)] struct Event` with `#[serde(flatten)] kind: EventKind`: the reader's own
             keys are taken (a duplicate is an error), every other member is buffered and handed to the
             internally tagged enum: the tag member exactly once (a string naming a tag or alias, or the
             variant index as a number), then the variant's struct visitor: known key or alias -> field (twice
             = error), unknown keys ignored, missing field -> default if `default`, None if Option, else error.
   Numbers are decimal token atoms; serde_json's float printing is not modelled (see props/C03.json). *)
From RipV Require Import Base.Prelude Base.Json Base.JsonParse.
From Coq Require Import DecimalN DecimalPos Decimal.

(* ---------- decimal integers (itoa / serde_json integer parsing) ---------- *)
Fixpoint uint_to_str (d : Decimal.uint) : str :=
  match d with
  | Nil => []
  | D0 r => 48 :: uint_to_str r | D1 r => 49 :: uint_to_str r | D2 r => 50 :: uint_to_str r
  | D3 r => 51 :: uint_to_str r | D4 r => 52 :: uint_to_str r | D5 r => 53 :: uint_to_str r
  | D6 r => 54 :: uint_to_str r | D7 r => 55 :: uint_to_str r | D8 r => 56 :: uint_to_str r
  | D9 r => 57 :: uint_to_str r
  end.

Definition digit_cons (c : N) (r : Decimal.uint) : option Decimal.uint :=
  if c =? 48 then Some (D0 r) else if c =? 49 then Some (D1 r) else if c =? 50 then Some (D2 r)
  else if c =? 51 then Some (D3 r) else if c =? 52 then Some (D4 r) else if c =? 53 then Some (D5 r)
  else if c =? 54 then Some (D6 r) else if c =? 55 then Some (D7 r) else if c =? 56 then Some (D8 r)
  else if c =? 57 then Some (D9 r) else None.

Fixpoint str_to_uint (s : str) : option Decimal.uint :=
  match s with
  | [] => Some Nil
  | c :: r => match str_to_uint r with Some d => digit_cons c d | None => None end
  end.

Definition dec (n : N) : str := uint_to_str (N.to_uint n).

(* an unsigned integer token as serde_json accepts it for an integer field: digits only, canonical (no
   leading zeros, not empty — i.e. printing the value gives the token back), within the field's range *)
Definition parse_unsigned (max : N) (tok : str) : option N :=
  match str_to_uint tok with
  | Some d => let n := N.of_uint d in
              if str_eqb (dec n) tok && (n <=? max) then Some n else None
  | None => None
  end.

Definition decz (z : Z) : str :=
  if (z <? 0)%Z then cMINUS :: dec (Z.to_N (- z)) else dec (Z.to_N z).

(* "-0" is a float for serde_json, so it is not an integer token *)
Definition parse_signed (lo hi : Z) (tok : str) : option Z :=
  match tok with
  | c :: r =>
    if c =? cMINUS then
      match parse_unsigned 9223372036854775808 r with
      | Some n => if (n =? 0) then None else
                  let z := (- Z.of_N n)%Z in if (lo <=? z)%Z then Some z else None
      | None => None
      end
    else match parse_unsigned U64MAX tok with
         | Some n => let z := Z.of_N n in if (z <=? hi)%Z then Some z else None
         | None => None
         end
  | [] => None
  end.

Definition U32MAX : N := 4294967295.
Definition U16MAX : N := 65535.
Definition I32MIN : Z := (-2147483648)%Z.
Definition I32MAX : Z := 2147483647%Z.

(* ---------- serde_json::Value normal form: object members sorted by key, last duplicate wins ---------- *)
Fixpoint str_ltb (a b : str) : bool :=
  match a, b with
  | [], [] => false
  | [], _ :: _ => true
  | _ :: _, [] => false
  | x :: a', y :: b' => if x <? y then true else if y <? x then false else str_ltb a' b'
  end.

Fixpoint insert_kv (k : str) (v : json) (l : list (str * json)) : list (str * json) :=
  match l with
  | [] => [(k, v)]
  | (k', v') :: r =>
    if str_ltb k k' then (k, v) :: l
    else if str_eqb k k' then (k, v) :: r
    else (k', v') :: insert_kv k v r
  end.

Definition sort_kvs (l : list (str * json)) : list (str * json) :=
  fold_left (fun acc kv => insert_kv (fst kv) (snd kv) acc) l [].

Fixpoint val_norm (j : json) : json :=
  match j with
  | JArr l => JArr (map val_norm l)
  | JObj kvs => JObj (sort_kvs (map (fun kv => (fst kv, val_norm (snd kv))) kvs))
  | _ => j
  end.

(* ---------- schema descriptors ---------- *)
Inductive skip := SkipNever | SkipIsNone | SkipIsEmpty | SkipOther.
Inductive skind := KSession | KTask | KContinuity | KArtifact | KUnknown.

Record fmeta := mkF { fkey : str; fdflt : bool; falias : list str; fskip : skip }.

Inductive ty :=
| TStr | TU64 | TU32 | TU16 | TI32 | TBool | TVal
| TOpt (t : ty)
| TVec (t : ty)
| TEnum (tags : list str)
| TStruct (fs : list (fmeta * ty))
| TUnknown.

Definition field := (fmeta * ty)%type.

Record variant := { vname : str; vtag : str; valiases : list str; vfields : list field }.
Record kind_arm := { ka_variant : str; ka_kind : skind; ka_binds : bool; ka_guard : bool }.

Record schema := {
  s_variants : list variant;
  s_arms : list kind_arm;               (* the arms of Event::stream_kind, in order *)
  s_default_kind : skind;               (* the `_ =>` arm *)
  s_default_guard : bool;
  s_wire : list (str * str);            (* EventWire: key, expression it is fed from *)
  s_wire_flatten : str * str;
  s_event : list (str * str);           (* Event: own field, Rust type *)
  s_event_flatten : str * str;
  s_stream_id_body : str;               (* body of Event::stream_id *)
  s_tag_key : str;
  s_supported : bool                    (* the extractor classified every construct it met *)
}.

Definition empty_schema : schema :=
  {| s_variants := []; s_arms := []; s_default_kind := KUnknown; s_default_guard := false; s_wire := [];
     s_wire_flatten := ([], []); s_event := []; s_event_flatten := ([], []); s_stream_id_body := [];
     s_tag_key := []; s_supported := false |}.

(* ---------- the fixed part: envelope keys (what the model's writer/reader below implement) ---------- *)
Definition k_id : str := [105; 100].
Definition k_session_id : str := [115; 101; 115; 115; 105; 111; 110; 95; 105; 100].
Definition k_stream_kind : str := [115; 116; 114; 101; 97; 109; 95; 107; 105; 110; 100].
Definition k_stream_id : str := [115; 116; 114; 101; 97; 109; 95; 105; 100].
Definition k_timestamp_ms : str := [116; 105; 109; 101; 115; 116; 97; 109; 112; 95; 109; 115].
Definition k_seq : str := [115; 101; 113].
Definition k_type : str := [116; 121; 112; 101].

Definition x_self_id : str := [38; 115; 101; 108; 102; 46; 105; 100].                                   (* &self.id *)
Definition x_self_session_id : str := [38; 115; 101; 108; 102; 46; 115; 101; 115; 115; 105; 111; 110; 95; 105; 100].
Definition x_stream_kind_call : str :=
  [115; 101; 108; 102; 46; 115; 116; 114; 101; 97; 109; 95; 107; 105; 110; 100; 40; 41].                 (* self.stream_kind() *)
Definition x_stream_id_call : str := [115; 101; 108; 102; 46; 115; 116; 114; 101; 97; 109; 95; 105; 100; 40; 41].
Definition x_self_timestamp_ms : str :=
  [115; 101; 108; 102; 46; 116; 105; 109; 101; 115; 116; 97; 109; 112; 95; 109; 115].                    (* self.timestamp_ms *)
Definition x_self_seq : str := [115; 101; 108; 102; 46; 115; 101; 113].
Definition x_self_kind : str := [38; 115; 101; 108; 102; 46; 107; 105; 110; 100].
Definition t_String : str := [83; 116; 114; 105; 110; 103].
Definition t_u64 : str := [117; 54; 52].
Definition t_EventKind : str := [69; 118; 101; 110; 116; 75; 105; 110; 100].
Definition k_kind : str := [107; 105; 110; 100].

Definition expected_wire : list (str * str) :=
  [(k_id, x_self_id); (k_session_id, x_self_session_id); (k_stream_kind, x_stream_kind_call);
   (k_stream_id, x_stream_id_call); (k_timestamp_ms, x_self_timestamp_ms); (k_seq, x_self_seq)].
Definition expected_event : list (str * str) :=
  [(k_id, t_String); (k_session_id, t_String); (k_timestamp_ms, t_u64); (k_seq, t_u64)].

(* keys the writer puts in front of the payload fields *)
Definition reserved_keys : list str :=
  [k_id; k_session_id; k_stream_kind; k_stream_id; k_timestamp_ms; k_seq; k_type].

Definition kind_name (k : skind) : str :=
  match k with
  | KSession => [115; 101; 115; 115; 105; 111; 110]
  | KTask => [116; 97; 115; 107]
  | KContinuity => [99; 111; 110; 116; 105; 110; 117; 105; 116; 121]
  | KArtifact => [97; 114; 116; 105; 102; 97; 99; 116]
  | KUnknown => [63]
  end.

(* ---------- values ---------- *)
Inductive value :=
| VStr (s : str)
| VNat (n : N)
| VInt (z : Z)
| VBool (b : bool)
| VVal (j : json)
| VOpt (o : option value)
| VVec (l : list value)
| VEnum (tag : str)
| VStruct (vs : list value).

Record event := { e_id : str; e_sid : str; e_ts : N; e_seq : N; e_var : nat; e_fields : list value }.

Definition mem_str (s : str) (l : list str) : bool := existsb (str_eqb s) l.

Fixpoint nodup_str (l : list str) : bool :=
  match l with [] => true | x :: r => negb (mem_str x r) && nodup_str r end.

(* ---------- classification: first arm naming the variant, else the default arm ---------- *)
Fixpoint kind_of_name (arms : list kind_arm) (dflt : skind) (name : str) : skind :=
  match arms with
  | [] => dflt
  | a :: r => if str_eqb (ka_variant a) name then ka_kind a else kind_of_name r dflt name
  end.

Definition variant_kind (s : schema) (v : variant) : skind :=
  kind_of_name (s_arms s) (s_default_kind s) (vname v).

Definition event_kind (s : schema) (e : event) : skind :=
  match nth_error (s_variants s) (e_var e) with
  | Some v => variant_kind s v
  | None => KUnknown
  end.

(* ---------- writer ---------- *)
Definition skipped (sk : skip) (v : value) : bool :=
  match sk, v with
  | SkipIsNone, VOpt None => true
  | SkipIsEmpty, VVec [] => true
  | _, _ => false
  end.

Definition enc_fields_with (enc : ty -> value -> json) : list field -> list value -> list (str * json) :=
  fix ef (fs : list field) (vs : list value) : list (str * json) :=
    match fs, vs with
    | (m, t) :: fs', v :: vs' =>
      if skipped (fskip m) v then ef fs' vs' else (fkey m, enc t v) :: ef fs' vs'
    | _, _ => []
    end.

Fixpoint enc (t : ty) (v : value) : json :=
  match t, v with
  | TStr, VStr s => JStr s
  | TU64, VNat n => JNum (dec n)
  | TU32, VNat n => JNum (dec n)
  | TU16, VNat n => JNum (dec n)
  | TI32, VInt z => JNum (decz z)
  | TBool, VBool b => JBool b
  | TVal, VVal j => j
  | TOpt _, VOpt None => JNull
  | TOpt t', VOpt (Some v') => enc t' v'
  | TVec t', VVec l => JArr (map (enc t') l)
  | TEnum _, VEnum tag => JStr tag
  | TStruct fs, VStruct vs =>
    JObj ((fix ef (fs : list field) (vs : list value) : list (str * json) :=
             match fs, vs with
             | (m, t) :: fs', v :: vs' =>
               if skipped (fskip m) v then ef fs' vs' else (fkey m, enc t v) :: ef fs' vs'
             | _, _ => []
             end) fs vs)
  | _, _ => JNull
  end.

Definition enc_fields := enc_fields_with enc.

Definition encode_event (s : schema) (e : event) : json :=
  match nth_error (s_variants s) (e_var e) with
  | Some v =>
    JObj ([(k_id, JStr (e_id e)); (k_session_id, JStr (e_sid e));
           (k_stream_kind, JStr (kind_name (variant_kind s v))); (k_stream_id, JStr (e_sid e));
           (k_timestamp_ms, JNum (dec (e_ts e))); (k_seq, JNum (dec (e_seq e)));
           (k_type, JStr (vtag v))] ++ enc_fields (vfields v) (e_fields e))
  | None => JNull
  end.

(* ---------- reader ---------- *)
Definition default_value (t : ty) : option value :=
  match t with
  | TStr => Some (VStr [])
  | TU64 | TU32 | TU16 => Some (VNat 0)
  | TI32 => Some (VInt 0%Z)
  | TBool => Some (VBool false)
  | TVal => Some (VVal JNull)
  | TOpt _ => Some (VOpt None)
  | TVec _ => Some (VVec [])
  | _ => None               (* the enums and helper structs do not implement Default *)
  end.

Definition names_of (m : fmeta) : list str := fkey m :: falias m.

(* members of an object whose key is one of the given names, in document order *)
Fixpoint lookup_all (names : list str) (kvs : list (str * json)) : list json :=
  match kvs with
  | [] => []
  | (k, v) :: r => if mem_str k names then v :: lookup_all names r else lookup_all names r
  end.

Fixpoint map_opt {A B} (f : A -> option B) (l : list A) : option (list B) :=
  match l with
  | [] => Some []
  | x :: r => match f x, map_opt f r with
              | Some y, Some ys => Some (y :: ys)
              | _, _ => None
              end
  end.

(* a missing field: `default` -> Default::default(); Option -> None; otherwise an error *)
Definition missing_value (m : fmeta) (t : ty) : option value :=
  if fdflt m then default_value t
  else match t with TOpt _ => Some (VOpt None) | _ => None end.

Definition dec_field_with (dec : ty -> json -> option value) (kvs : list (str * json)) (f : field) : option value :=
  match lookup_all (names_of (fst f)) kvs with
  | [] => missing_value (fst f) (snd f)
  | [j] => dec (snd f) j
  | _ => None                                   (* duplicate field *)
  end.

(* visit_seq of a derived struct (serde's buffered Content offers a sequence positionally) *)
Definition dec_seq_with (dec : ty -> json -> option value) : list field -> list json -> option (list value) :=
  fix ds (fs : list field) (l : list json) : option (list value) :=
    match fs with
    | [] => match l with [] => Some [] | _ => None end        (* trailing elements: invalid length *)
    | (m, t) :: fs' =>
      match l with
      | j :: l' => match dec t j, ds fs' l' with Some v, Some vs => Some (v :: vs) | _, _ => None end
      | [] => if fdflt m
              then match default_value t, ds fs' [] with Some v, Some vs => Some (v :: vs) | _, _ => None end
              else None
      end
    end.

Definition enum_tag_of (j : json) : option str :=
  match j with
  | JStr s => Some s
  | JObj [(k, JNull)] => Some k          (* {"tag": null}: externally tagged unit variant *)
  | JObj [(k, JObj [])] => Some k        (* {"tag": {}}: unit from an empty buffered map *)
  | _ => None
  end.

Fixpoint decv (t : ty) (j : json) : option value :=
  match t with
  | TStr => match j with JStr s => Some (VStr s) | _ => None end
  | TU64 => match j with JNum tok => option_map VNat (parse_unsigned U64MAX tok) | _ => None end
  | TU32 => match j with JNum tok => option_map VNat (parse_unsigned U32MAX tok) | _ => None end
  | TU16 => match j with JNum tok => option_map VNat (parse_unsigned U16MAX tok) | _ => None end
  | TI32 => match j with JNum tok => option_map VInt (parse_signed I32MIN I32MAX tok) | _ => None end
  | TBool => match j with JBool b => Some (VBool b) | _ => None end
  | TVal => Some (VVal (val_norm j))
  | TOpt t' =>
    match j with
    | JNull => Some (VOpt None)
    | _ => option_map (fun v => VOpt (Some v)) (decv t' j)
    end
  | TVec t' => match j with JArr l => option_map VVec (map_opt (decv t') l) | _ => None end
  | TEnum tags =>
    match enum_tag_of j with
    | Some s => if mem_str s tags then Some (VEnum s) else None
    | None => None
    end
  | TStruct fs =>
    match j with
    | JObj kvs =>
      option_map VStruct
        ((fix df (fs : list field) : option (list value) :=
            match fs with
            | [] => Some []
            | (m, t) :: fs' =>
              match (match lookup_all (names_of m) kvs with
                     | [] => missing_value m t
                     | [j] => decv t j
                     | _ => None
                     end), df fs' with
              | Some v, Some vs => Some (v :: vs)
              | _, _ => None
              end
            end) fs)
    | JArr l =>
      option_map VStruct
        ((fix ds (fs : list field) (l : list json) : option (list value) :=
            match fs with
            | [] => match l with [] => Some [] | _ => None end
            | (m, t) :: fs' =>
              match l with
              | j :: l' => match decv t j, ds fs' l' with Some v, Some vs => Some (v :: vs) | _, _ => None end
              | [] => if fdflt m
                      then match default_value t, ds fs' [] with Some v, Some vs => Some (v :: vs) | _, _ => None end
                      else None
              end
            end) fs l)
    | _ => None
    end
  | TUnknown => None
  end.

Definition dec_fields (fs : list field) (kvs : list (str * json)) : option (list value) :=
  map_opt (dec_field_with decv kvs) fs.

(* position of the variant a tag string names (tag or alias; first declared wins, as in the derived
   `visit_str`) *)
Fixpoint find_variant (tag : str) (vs : list variant) (i : nat) : option nat :=
  match vs with
  | [] => None
  | v :: r => if str_eqb tag (vtag v) || mem_str tag (valiases v) then Some i else find_variant tag r (S i)
  end.

Definition exactly_one (l : list json) : option json :=
  match l with [j] => Some j | _ => None end.

Definition remove_keys (names : list str) (kvs : list (str * json)) : list (str * json) :=
  filter (fun kv => negb (mem_str (fst kv) names)) kvs.

(* the reader's own fields *)
Definition own_keys : list str := [k_id; k_session_id; k_timestamp_ms; k_seq].

Definition decode_event (s : schema) (j : json) : option event :=
  match j with
  | JObj kvs =>
    match exactly_one (lookup_all [k_id] kvs), exactly_one (lookup_all [k_session_id] kvs),
          exactly_one (lookup_all [k_timestamp_ms] kvs), exactly_one (lookup_all [k_seq] kvs) with
    | Some (JStr id), Some (JStr sid), Some (JNum ts), Some (JNum sq) =>
      match parse_unsigned U64MAX ts, parse_unsigned U64MAX sq with
      | Some ts, Some sq =>
        let rest := remove_keys own_keys kvs in                 (* the buffered, flattened members *)
        match exactly_one (lookup_all [k_type] rest) with
        | Some tagv =>
          let vi := match tagv with
                    | JStr tag => find_variant tag (s_variants s) 0
                    | JNum tok => match parse_unsigned U64MAX tok with
                                  | Some n => if n <? nlen (s_variants s) then Some (N.to_nat n) else None
                                  | None => None
                                  end
                    | _ => None
                    end in
          match vi with
          | Some i =>
            match nth_error (s_variants s) i with
            | Some v =>
              match dec_fields (vfields v) (remove_keys [k_type] rest) with
              | Some vs => Some {| e_id := id; e_sid := sid; e_ts := ts; e_seq := sq; e_var := i; e_fields := vs |}
              | None => None
              end
            | None => None
            end
          | None => None
          end
        | None => None
        end
      | _, _ => None
      end
    | _, _, _, _ => None
    end
  | _ => None
  end.

(* ---------- what a read-back yields: Some(x) whose wire form is `null` comes back as None ---------- *)
Definition json_is_null (j : json) : bool := match j with JNull => true | _ => false end.

Fixpoint canon (t : ty) (v : value) : value :=
  match t, v with
  | TOpt t', VOpt (Some v') => if json_is_null (enc t' v') then VOpt None else VOpt (Some (canon t' v'))
  | TVec t', VVec l => VVec (map (canon t') l)
  | TStruct fs, VStruct vs =>
    VStruct ((fix cf (fs : list field) (vs : list value) : list value :=
                match fs, vs with
                | (m, t) :: fs', v :: vs' => canon t v :: cf fs' vs'
                | _, _ => []
                end) fs vs)
  | _, _ => v
  end.

Fixpoint canon_fields (fs : list field) (vs : list value) : list value :=
  match fs, vs with
  | (m, t) :: fs', v :: vs' => canon t v :: canon_fields fs' vs'
  | _, _ => []
  end.

Definition canon_event (s : schema) (e : event) : event :=
  match nth_error (s_variants s) (e_var e) with
  | Some v => {| e_id := e_id e; e_sid := e_sid e; e_ts := e_ts e; e_seq := e_seq e; e_var := e_var e;
                 e_fields := canon_fields (vfields v) (e_fields e) |}
  | None => e
  end.

(* ---------- well-typed values ---------- *)
Fixpoint wt (t : ty) (v : value) : bool :=
  match t, v with
  | TStr, VStr _ => true
  | TU64, VNat n => n <=? U64MAX
  | TU32, VNat n => n <=? U32MAX
  | TU16, VNat n => n <=? U16MAX
  | TI32, VInt z => ((I32MIN <=? z) && (z <=? I32MAX))%Z
  | TBool, VBool _ => true
  | TVal, VVal j => json_eqb (val_norm j) j          (* a serde_json::Value: members sorted, no duplicates *)
  | TOpt _, VOpt None => true
  | TOpt t', VOpt (Some v') => wt t' v'
  | TVec t', VVec l => forallb (wt t') l
  | TEnum tags, VEnum tag => mem_str tag tags
  | TStruct fs, VStruct vs =>
    (fix wf (fs : list field) (vs : list value) : bool :=
       match fs, vs with
       | [], [] => true
       | (m, t) :: fs', v :: vs' => wt t v && wf fs' vs'
       | _, _ => false
       end) fs vs
  | _, _ => false
  end.

Fixpoint wt_fields (fs : list field) (vs : list value) : bool :=
  match fs, vs with
  | [], [] => true
  | (m, t) :: fs', v :: vs' => wt t v && wt_fields fs' vs'
  | _, _ => false
  end.

Definition wt_event (s : schema) (e : event) : bool :=
  match nth_error (s_variants s) (e_var e) with
  | Some v => (e_ts e <=? U64MAX) && (e_seq e <=? U64MAX) && wt_fields (vfields v) (e_fields e)
  | None => false
  end.

(* no Some(x) printing as `null` anywhere: the read-back is the identical value *)
Fixpoint exact_ok (t : ty) (v : value) : bool :=
  match t, v with
  | TOpt t', VOpt (Some v') => negb (json_is_null (enc t' v')) && exact_ok t' v'
  | TVec t', VVec l => forallb (exact_ok t') l
  | TStruct fs, VStruct vs =>
    (fix xf (fs : list field) (vs : list value) : bool :=
       match fs, vs with
       | (m, t) :: fs', v :: vs' => exact_ok t v && xf fs' vs'
       | _, _ => true
       end) fs vs
  | _, _ => true
  end.

Fixpoint exact_ok_fields (fs : list field) (vs : list value) : bool :=
  match fs, vs with
  | (m, t) :: fs', v :: vs' => exact_ok t v && exact_ok_fields fs' vs'
  | _, _ => true
  end.

Definition exact_event (s : schema) (e : event) : bool :=
  match nth_error (s_variants s) (e_var e) with
  | Some v => exact_ok_fields (vfields v) (e_fields e)
  | None => true
  end.

(* no Some(x) printing as `null` in a field that is skipped when None (there the key itself would vanish on
   re-serialisation); elsewhere Some(null) and None print the same `null` *)
Definition skip_some_null (m : fmeta) (t : ty) (v : value) : bool :=
  match fskip m, t, v with
  | SkipIsNone, TOpt t', VOpt (Some v') => json_is_null (enc t' v')
  | _, _, _ => false
  end.

Fixpoint wire_ok (t : ty) (v : value) : bool :=
  match t, v with
  | TOpt t', VOpt (Some v') => wire_ok t' v'
  | TVec t', VVec l => forallb (wire_ok t') l
  | TStruct fs, VStruct vs =>
    (fix xf (fs : list field) (vs : list value) : bool :=
       match fs, vs with
       | (m, t) :: fs', v :: vs' => negb (skip_some_null m t v) && wire_ok t v && xf fs' vs'
       | _, _ => true
       end) fs vs
  | _, _ => true
  end.

Fixpoint wire_ok_fields (fs : list field) (vs : list value) : bool :=
  match fs, vs with
  | (m, t) :: fs', v :: vs' => negb (skip_some_null m t v) && wire_ok t v && wire_ok_fields fs' vs'
  | _, _ => true
  end.

Definition wire_event (s : schema) (e : event) : bool :=
  match nth_error (s_variants s) (e_var e) with
  | Some v => wire_ok_fields (vfields v) (e_fields e)
  | None => true
  end.

(* ---------- well-formed schemas (the premise of every theorem; re-checked on the generated schema) ------- *)
Definition is_opt (t : ty) : bool := match t with TOpt _ => true | _ => false end.
Definition is_vec (t : ty) : bool := match t with TVec _ => true | _ => false end.
Definition has_default (t : ty) : bool := match default_value t with Some _ => true | None => false end.

Definition wf_meta (m : fmeta) (t : ty) : bool :=
  match fskip m with
  | SkipNever => true
  | SkipIsNone => is_opt t
  | SkipIsEmpty => is_vec t && fdflt m
  | SkipOther => false
  end
  && (if fdflt m then has_default t else true)
  && str_ok (fkey m) && forallb str_ok (falias m).

Definition all_names (fs : list field) : list str := flat_map (fun f => names_of (fst f)) fs.

Fixpoint wf_ty (t : ty) : bool :=
  match t with
  | TOpt t' => wf_ty t'
  | TVec t' => wf_ty t'
  | TEnum tags => nodup_str tags && forallb str_ok tags
  | TStruct fs =>
    nodup_str (flat_map (fun f => names_of (fst f)) fs)
    && (fix wfs (fs : list field) : bool :=
          match fs with
          | [] => true
          | (m, t) :: fs' => wf_meta m t && wf_ty t && wfs fs'
          end) fs
  | TUnknown => false
  | _ => true
  end.

Fixpoint wf_fields (fs : list field) : bool :=
  match fs with
  | [] => true
  | (m, t) :: fs' => wf_meta m t && wf_ty t && wf_fields fs'
  end.

Definition disjoint_str (a b : list str) : bool := forallb (fun x => negb (mem_str x b)) a.

Definition wf_variant (v : variant) : bool :=
  nodup_str (all_names (vfields v))
  && disjoint_str (all_names (vfields v)) reserved_keys
  && wf_fields (vfields v)
  && str_ok (vtag v).

Definition all_tags (vs : list variant) : list str := flat_map (fun v => vtag v :: valiases v) vs.

Definition wf_arm (vs : list variant) (a : kind_arm) : bool :=
  negb (ka_binds a) && negb (ka_guard a)
  && existsb (fun v => str_eqb (vname v) (ka_variant a)) vs
  && match ka_kind a with KUnknown => false | _ => true end.

Definition pair_list_eqb (a b : list (str * str)) : bool :=
  list_eqb (fun x y => str_eqb (fst x) (fst y) && str_eqb (snd x) (snd y)) a b.

Definition wf_schema (s : schema) : bool :=
  s_supported s
  (* the envelope the model implements is the one EventWire writes and Event reads *)
  && pair_list_eqb (s_wire s) expected_wire
  && str_eqb (fst (s_wire_flatten s)) k_kind && str_eqb (snd (s_wire_flatten s)) x_self_kind
  && pair_list_eqb (s_event s) expected_event
  && str_eqb (fst (s_event_flatten s)) k_kind && str_eqb (snd (s_event_flatten s)) t_EventKind
  && str_eqb (s_stream_id_body s) x_self_session_id
  && str_eqb (s_tag_key s) k_type
  (* variants *)
  && nodup_str (all_tags (s_variants s))
  && nodup_str (map vname (s_variants s))
  && forallb wf_variant (s_variants s)
  (* the stream kind is a function of the variant alone *)
  && forallb (wf_arm (s_variants s)) (s_arms s)
  && negb (s_default_guard s)
  && match s_default_kind s with KUnknown => false | _ => true end.

(* ---------- text forms: one log / sidecar line, one snapshot file ----------
   EventLog::append and the sidecar writer: serde_json::to_string(event) + "\n";
   write_snapshot: serde_json::to_writer_pretty(&[Event]); readers: serde_json::from_str / from_reader. *)
Definition write_line (s : schema) (e : event) : str := Json.print (encode_event s e).

Definition read_line (s : schema) (txt : str) : option event :=
  match parse txt with
  | Some j => decode_event s j
  | None => None
  end.

Definition write_snapshot (s : schema) (es : list event) : str :=
  print_pretty (JArr (map (encode_event s) es)).

Definition read_snapshot (s : schema) (txt : str) : option (list event) :=
  match parse txt with
  | Some (JArr l) => map_opt (decode_event s) l
  | _ => None
  end.

(* values a Rust frame can hold: Strings are sequences of Unicode scalar values, number tokens inside a
   serde_json::Value are JSON numbers *)
Fixpoint txt_ok (t : ty) (v : value) : bool :=
  match t, v with
  | TStr, VStr s => str_ok s
  | TVal, VVal j => json_ok j
  | TOpt t', VOpt (Some v') => txt_ok t' v'
  | TVec t', VVec l => forallb (txt_ok t') l
  | TStruct fs, VStruct vs =>
    (fix xf (fs : list field) (vs : list value) : bool :=
       match fs, vs with
       | (m, t) :: fs', v :: vs' => txt_ok t v && xf fs' vs'
       | _, _ => true
       end) fs vs
  | _, _ => true
  end.

Fixpoint txt_ok_fields (fs : list field) (vs : list value) : bool :=
  match fs, vs with
  | (m, t) :: fs', v :: vs' => txt_ok t v && txt_ok_fields fs' vs'
  | _, _ => true
  end.

Definition txt_event (s : schema) (e : event) : bool :=
  str_ok (e_id e) && str_ok (e_sid e) &&
  match nth_error (s_variants s) (e_var e) with
  | Some v => txt_ok_fields (vfields v) (e_fields e)
  | None => true
  end.

(* a frame the system can hold in memory *)
Definition frame_ok (s : schema) (e : event) : bool := wt_event s e && txt_event s e.

(* nesting of the written document stays under serde_json's recursion limit *)
Definition depth_ok (s : schema) (e : event) : bool := Nat.ltb (json_depth (encode_event s e)) 128.
Definition snapshot_depth_ok (s : schema) (e : event) : bool := Nat.ltb (json_depth (encode_event s e)) 127.

Definition kind_code_of (k : skind) : N :=
  match k with KSession => 0 | KTask => 1 | KContinuity => 2 | KArtifact => 3 | KUnknown => 99 end.

(* ---------- the sinks of one emitted frame ----------
   continuities.rs (append paths) and session.rs (emit_event): the SAME Event value is (1) appended to
   events.jsonl, (2) appended to the per-stream sidecar, (3) pushed to the per-session buffer that becomes the
   snapshot, (4) sent on the broadcast channel.  Streams are keyed by (stream kind, stream id). *)
Record sinks := { k_log : list str; k_sidecar : list (N * str * str); k_buffer : list event; k_live : list event }.
Definition sinks0 : sinks := {| k_log := []; k_sidecar := []; k_buffer := []; k_live := [] |}.

Definition stream_key (s : schema) (e : event) : N * str := (kind_code_of (event_kind s e), e_sid e).

Definition key_eqb (a b : N * str) : bool := (fst a =? fst b) && str_eqb (snd a) (snd b).

Definition emit (s : schema) (k : sinks) (e : event) : sinks :=
  let line := write_line s e in
  {| k_log := k_log k ++ [line];
     k_sidecar := k_sidecar k ++ [(fst (stream_key s e), snd (stream_key s e), line)];
     k_buffer := k_buffer k ++ [e];
     k_live := k_live k ++ [e] |}.

Definition run_emits (s : schema) (es : list event) : sinks := fold_left (emit s) es sinks0.

(* the four views of one stream *)
Definition of_stream (s : schema) (key : N * str) (es : list event) : list event :=
  filter (fun e => key_eqb (stream_key s e) key) es.

Definition view_live (s : schema) (key : N * str) (k : sinks) : list event := of_stream s key (k_live k).

Definition view_log (s : schema) (key : N * str) (k : sinks) : option (list event) :=
  option_map (of_stream s key) (map_opt (read_line s) (k_log k)).

Definition view_sidecar (s : schema) (key : N * str) (k : sinks) : option (list event) :=
  map_opt (read_line s)
    (map (fun x => snd x) (filter (fun x => key_eqb (fst (fst x), snd (fst x)) key) (k_sidecar k))).

Definition view_snapshot (s : schema) (key : N * str) (k : sinks) : option (list event) :=
  read_snapshot s (write_snapshot s (of_stream s key (k_buffer k))).

(* ---------- the sidecar is a cache that can be lost while the store lives ----------
   continuity_stream_cache.rs: `append_best_effort` creates the file when it is absent (so after a loss it holds
   the frames appended since); `try_replay` reads it and refuses it unless the seqs are 0,1,2,..;
   continuities.rs `replay_events` (the past of a late subscriber, branch / handoff / status reads) serves the
   sidecar when `try_replay` accepts it and otherwise replays the stream from the log and rebuilds the file.
   The shape of the two checks is read from the source (tools/gen/sinks.py -> gen_replay_check). *)
Record replay_check := {
  rc_first_zero : bool;      (* the first line must carry seq 0 (counter starts at 0) *)
  rc_successor : bool;       (* every line must carry the seq after the previous line's *)
  rc_empty_refused : bool;   (* a file without frames is refused *)
  rc_fallback_log : bool     (* replay_events: refused / absent => the stream is replayed from the log *)
}.
Definition wf_replay_check (rc : replay_check) : bool :=
  rc_first_zero rc && rc_successor rc && rc_empty_refused rc && rc_fallback_log rc.
Definition rc_code : replay_check := {| rc_first_zero := true; rc_successor := true; rc_empty_refused := true; rc_fallback_log := true |}.

Inductive hstep :=
| HEmit (e : event)          (* an append path: log, sidecar, buffer, broadcast *)
| HLose (key : N * str)      (* one stream's sidecar disappears *)
| HLoseAll                   (* the sidecar directory disappears *)
| HReplay (key : N * str).   (* replay_events of a stream *)

Definition side_key (x : N * str * str) : N * str := (fst (fst x), snd (fst x)).
Definition side_of (key : N * str) (sd : list (N * str * str)) : list str :=
  map (fun x => snd x) (filter (fun x => key_eqb (side_key x) key) sd).
Definition drop_key (key : N * str) (sd : list (N * str * str)) : list (N * str * str) :=
  filter (fun x => negb (key_eqb (side_key x) key)) sd.

Fixpoint follows (es : list event) : bool :=
  match es with
  | e :: r => match r with e' :: _ => (e_seq e' =? e_seq e + 1) && follows r | [] => true end
  | [] => true
  end.
Definition first_zero (es : list event) : bool :=
  match es with e :: _ => e_seq e =? 0 | [] => true end.

(* None: no file, unreadable line, or refused *)
Definition try_replay (rc : replay_check) (s : schema) (key : N * str) (sd : list (N * str * str)) : option (list event) :=
  match side_of key sd with
  | [] => if rc_empty_refused rc then None else Some []
  | ls => match map_opt (read_line s) ls with
          | Some es => if (negb (rc_first_zero rc) || first_zero es) && (negb (rc_successor rc) || follows es) then Some es else None
          | None => None
          end
  end.

Definition with_sidecar (k : sinks) (sd : list (N * str * str)) : sinks :=
  {| k_log := k_log k; k_sidecar := sd; k_buffer := k_buffer k; k_live := k_live k |}.

Definition replay_events (rc : replay_check) (s : schema) (key : N * str) (k : sinks) : option (list event) * sinks :=
  match try_replay rc s key (k_sidecar k) with
  | Some es => (Some es, k)
  | None =>
    if rc_fallback_log rc then
      match view_log s key k with
      | Some es =>
        (Some es,
         match es with
         | [] => k
         | _ => with_sidecar k (drop_key key (k_sidecar k) ++ map (fun e => (fst key, snd key, write_line s e)) es)
         end)
      | None => (None, k)
      end
    else (None, k)
  end.

Definition hstep_run (rc : replay_check) (s : schema) (k : sinks) (h : hstep) : sinks :=
  match h with
  | HEmit e => emit s k e
  | HLose key => with_sidecar k (drop_key key (k_sidecar k))
  | HLoseAll => with_sidecar k []
  | HReplay key => snd (replay_events rc s key k)
  end.
Definition run_hist (rc : replay_check) (s : schema) (hs : list hstep) : sinks := fold_left (hstep_run rc s) hs sinks0.
Definition emitted (hs : list hstep) : list event :=
  flat_map (fun h => match h with HEmit e => [e] | _ => [] end) hs.

(* the seqs of every stream are 0,1,2,.. in emission order (the store's numbering, C01) *)
Fixpoint seqs_from (n : N) (es : list event) : bool :=
  match es with [] => true | e :: r => (e_seq e =? n) && seqs_from (n + 1) r end.

(* what a fresh reader of the log finds right after a frame was handed to `append`: the text form of
   `EventLog::append` (write the line, then flush); lw_flush says the flush is unconditional *)
Record log_write := { lw_writes_line : bool; lw_flush : bool; lw_side_flush : bool;
                      lw_forgets_failed : bool  (* a failed write / flush leaves nothing in the writer's buffer (log_file, not log_file_unfixed) *) }.
Definition wf_log_write (w : log_write) : bool := lw_writes_line w && lw_flush w && lw_side_flush w && lw_forgets_failed w.

(* payloads taken from outside are bounded where they enter (rip_kernel::MAX_PAYLOAD_NESTING, /repo 4f61ba5): a frame
   is one object around its payload and a snapshot one array around its frames, and the reader refuses 128 levels.
   `guards` = the ingestion sites found holding the bound (provider events, function-call arguments, tool envelope,
   POST /tasks).  This is the source-side reason why depth_ok / snapshot_depth_ok hold for emitted frames. *)
Definition wf_payload_bound (bound : N) (guards : list bool) : bool :=
  (bound + 2 <? 128) && forallb (fun g => g) guards && (4 <=? N.of_nat (length guards)).

(* ---------- the ORDER of the sinks at an emit site, and a log write that can fail ----------
   `emit` above is one step; the code is three statements, and the log write can fail (disk full, I/O error):
     continuities.rs (every append path):   self.event_log.append(&event).map_err(..)?;      -- Err: the function returns
                                            self.stream_cache.append_best_effort(&event);
                                            let _ = self.sender.send(event.clone());
     session.rs emit_event / tasks emit:    guard.push(event.clone());  let _ = sender.send(event.clone());
                                            let _ = event_log.append(&event);                 -- the error is dropped
   The order and whether the log append's result is checked (`?`) are read from the source for every emit site
   (tools/gen/sinks.py -> ss_order). *)
Inductive sink_op := SLog | SStore | SSend.
Definition is_log (o : sink_op) : bool := match o with SLog => true | _ => false end.
Record emit_order := { eo_ops : list sink_op; eo_log_checked : bool }.

Definition add_log (s : schema) (k : sinks) (e : event) : sinks :=
  {| k_log := k_log k ++ [write_line s e]; k_sidecar := k_sidecar k; k_buffer := k_buffer k; k_live := k_live k |}.
Definition add_store (s : schema) (k : sinks) (e : event) : sinks :=
  {| k_log := k_log k;
     k_sidecar := k_sidecar k ++ [(fst (stream_key s e), snd (stream_key s e), write_line s e)];
     k_buffer := k_buffer k ++ [e]; k_live := k_live k |}.
Definition add_live (k : sinks) (e : event) : sinks :=
  {| k_log := k_log k; k_sidecar := k_sidecar k; k_buffer := k_buffer k; k_live := k_live k ++ [e] |}.

(* the statements of one emit site for frame e; ok = the log write succeeds *)
Fixpoint emit_ops (s : schema) (checked ok : bool) (ops : list sink_op) (k : sinks) (e : event) : sinks :=
  match ops with
  | [] => k
  | SLog :: r => if ok then emit_ops s checked ok r (add_log s k e) e
                 else if checked then k                       (* `?`: the append path returns Err here *)
                 else emit_ops s checked ok r k e             (* `let _ =`: the error is dropped, the rest runs *)
  | SStore :: r => emit_ops s checked ok r (add_store s k e) e
  | SSend :: r => emit_ops s checked ok r (add_live k e) e
  end.
Definition emit_at (eo : emit_order) (s : schema) (k : sinks) (e : event) (ok : bool) : sinks :=
  emit_ops s (eo_log_checked eo) ok (eo_ops eo) k e.

(* a history of emits, each with the fate of its log write *)
Definition run_faulty (eo : emit_order) (s : schema) (steps : list (event * bool)) : sinks :=
  fold_left (fun k x => emit_at eo s k (fst x) (snd x)) steps sinks0.
Definition logged (steps : list (event * bool)) : list event := map fst (filter snd steps).

(* the checked log append comes first and is the only one *)
Definition log_first (eo : emit_order) : bool :=
  match eo_ops eo with SLog :: r => eo_log_checked eo && negb (existsb is_log r) | _ => false end.
(* ... and store and channel each get the frame once (the order read from continuities.rs) *)
Definition wf_order (eo : emit_order) : bool :=
  match eo_ops eo with
  | [SLog; SStore; SSend] | [SLog; SSend; SStore] => eo_log_checked eo
  | _ => false
  end.
(* every sink gets the frame once, in some order (what must hold of an emit site when no write fails) *)
Definition count_op (p : sink_op -> bool) (ops : list sink_op) : nat := length (filter p ops).
Definition order_complete (eo : emit_order) : bool :=
  Nat.eqb (count_op is_log (eo_ops eo)) 1
  && Nat.eqb (count_op (fun o => match o with SStore => true | _ => false end) (eo_ops eo)) 1
  && Nat.eqb (count_op (fun o => match o with SSend => true | _ => false end) (eo_ops eo)) 1.

Definition eo_cont : emit_order := {| eo_ops := [SLog; SStore; SSend]; eo_log_checked := true |}.
Definition eo_sess : emit_order := {| eo_ops := [SStore; SSend; SLog]; eo_log_checked := false |}.
(* the seeded change C03-4: sidecar written before the (checked) log append *)
Definition eo_sidecar_first : emit_order := {| eo_ops := [SStore; SLog; SSend]; eo_log_checked := true |}.

(* ---------- the log's writer and a write that fails ----------
   EventLog::append writes through a buffered writer.  As found (before /repo fix W4) the std BufWriter kept the bytes
   of a failed write / flush and handed them to the next call that succeeded: the line of a refused append reached the
   file later, in front of the line of the next successful append.  `log_file_unfixed` is that behaviour on the lines
   of a history of appends (line, fate of its write); `log_file` is the fixed writer (a failed call leaves nothing
   behind), which is what `emit_ops` uses. *)
Fixpoint log_file_unfixed (pending : list str) (steps : list (str * bool)) : list str :=
  match steps with
  | [] => []
  | (l, true) :: r => pending ++ [l] ++ log_file_unfixed [] r
  | (l, false) :: r => log_file_unfixed (pending ++ [l]) r
  end.
Definition log_file (steps : list (str * bool)) : list str := map fst (filter snd steps).

(* ---------- the buffer a snapshot is written from ----------
   session.rs: emit_event pushes every frame to the handle's Vec<Event>; run_session writes the snapshot from that
   very buffer.  A buffer that is shortened (capped at `cap` frames, oldest dropped: the seeded change C03-6) is
   `emit_capped`; tools/gen/sinks.py reads every shortening call on the buffers (gen_buffer_use). *)
Definition emit_capped (cap : nat) (s : schema) (k : sinks) (e : event) : sinks :=
  let k' := emit s k e in
  {| k_log := k_log k'; k_sidecar := k_sidecar k';
     k_buffer := if Nat.leb cap (length (k_buffer k)) then tl (k_buffer k) ++ [e] else k_buffer k';
     k_live := k_live k' |}.
Record buffer_use := {
  bu_vec : bool;             (* the session / task history buffers are plain Vec<Event> *)
  bu_never_shortened : bool; (* no truncate / drain / remove / pop / clear / retain / split_off / take on them *)
  bu_snapshot_source : bool  (* write_snapshot is handed the locked buffer itself *)
}.
Definition wf_buffer_use (b : buffer_use) : bool := bu_vec b && bu_never_shortened b && bu_snapshot_source b.

(* ---------- emit sites of the source (tools/gen/sinks.py -> Gen/Sinks.v) ----------
   `emit` above hands ONE value to all four sinks.  The extractor records, for every place where ripd publishes
   a frame, whether the same unmodified binding feeds the log append, the store next to it (sidecar or
   snapshot buffer) and the broadcast send; in which order the three statements come and whether the log
   append's result is checked; and, for the continuity append paths, whether the seq mutex guard is still held
   at the send (no drop before it) and the counter is advanced after it. *)
Record sink_site := {
  ss_has_log : bool; ss_same_log : bool;
  ss_has_store : bool; ss_same_store : bool;
  ss_immutable : bool;
  ss_cont : bool;            (* a continuity append path (continuities.rs) *)
  ss_order : emit_order;
  ss_guard_held : bool
}.

Definition site_ok (x : sink_site) : bool :=
  ss_has_log x && ss_same_log x && ss_has_store x && ss_same_store x && ss_immutable x.

Definition wf_sinks (l : list sink_site) : bool :=
  match l with [] => false | _ => forallb site_ok l end.

(* continuity append paths: checked log append first, then sidecar and channel, under the seq mutex;
   session / task emitters: every sink once (their log append comes last and its error is dropped — see
   c03_unchecked_log_last_refuted) *)
Definition site_order_ok (x : sink_site) : bool :=
  if ss_cont x then wf_order (ss_order x) && ss_guard_held x else order_complete (ss_order x).
Definition wf_sinks_order (l : list sink_site) : bool :=
  match l with [] => false | _ => forallb site_order_ok l && existsb ss_cont l end.

(* ---------- correspondence cases (harness/src/bin/c03.rs) ----------
   A case is one JSON document (as AST, numbers as token atoms) plus what the real crates did with it:
     c_impl_ok   : serde_json::from_str::<Event> succeeded
     c_impl_re   : the re-serialised frame (AST), when it succeeded
     c_impl_kind : 0 session / 1 task / 2 continuity / 3 artifact of the read-back frame
   and the schema in force is the generated one (passed by the case file). *)
Definition kind_code : skind -> N := kind_code_of.

Record case := {
  c_text : bool;          (* the texts below are present (documents over 4000 characters are compared as trees only) *)
  c_doc_text : str;       (* the document as given to serde_json::from_str, as code points *)
  c_has_ast : bool;       (* the harness's own parser accepted the text; c_doc is its tree *)
  c_doc : json;
  c_impl_ok : bool;
  c_impl_re : json;
  c_impl_kind : N;
  c_impl_text : str;      (* serde_json::to_string of the frame read back *)
  c_impl_pretty : str     (* serde_json::to_string_pretty of the one-element array of it (snapshot form) *)
}.

(* serde_json's recursion limit: a document nested 128 deep or more is rejected before any of the rules
   above applies (the text-level parser Base/JsonParse.v has the same limit; at AST level it is this test) *)
Definition DEPTH_LIMIT : nat := 128.
Definition read_doc (s : schema) (j : json) : option event :=
  if Nat.leb DEPTH_LIMIT (json_depth j) then None else decode_event s j.

(* the model's reading of a case: through its own parser when the text is there *)
Definition case_read (s : schema) (c : case) : option event :=
  if c_text c then read_line s (c_doc_text c) else read_doc s (c_doc c).

Definition option_json_eqb (a : option json) (b : json) : bool :=
  match a with Some x => json_eqb x b | None => false end.

Definition check_doc (s : schema) (c : case) : bool :=
  (* the model's parser and the harness's parser see the same tree (or the model refuses for depth) *)
  (if c_text c && c_has_ast c
   then option_json_eqb (parse (c_doc_text c)) (c_doc c)
        || (Nat.leb DEPTH_LIMIT (json_depth (c_doc c)) && match parse (c_doc_text c) with None => true | Some _ => false end)
   else true)
  && (if c_text c then true else c_has_ast c)
  && match case_read s c with
     | Some e =>
       c_impl_ok c && json_eqb (encode_event s e) (c_impl_re c) && (kind_code (event_kind s e) =? c_impl_kind c)
       && (if c_text c
           then str_eqb (write_line s e) (c_impl_text c)                       (* compact printer = serde_json::to_string *)
                && str_eqb (write_snapshot s [e]) (c_impl_pretty c)            (* pretty printer = to_string_pretty *)
                && option_json_eqb (parse (c_impl_text c)) (c_impl_re c)       (* model parser on serde's output *)
           else true)
     | None => negb (c_impl_ok c)
     end.

(* observation printed for a disagreeing case: 1/0 model accepted, kind code, length of the model's output *)
Definition doc_obs (s : schema) (c : case) : list N :=
  match case_read s c with
  | Some e => [1; kind_code (event_kind s e); N.of_nat (e_var e)] ++ Json.print (encode_event s e)
  | None => [0]
  end.
