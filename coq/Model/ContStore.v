(* Executable model of ripd's ContinuityStore write paths as a labelled transition system
   (crates/ripd/src/continuities.rs: the 13 append_* functions, create_continuity, branch, handoff,
   load_next_seq_for, replay_events; continuity_stream_cache.rs: try_replay, try_read_last_seq,
   append_best_effort, rebuild_best_effort; session.rs: emit_event; tasks/mod.rs: TaskEmitter::emit).

   A call is a list of micro-steps (`mstep`); every actor owns a program; a schedule is a list of
   actor ids; `step st a` runs the next micro-step of actor `a` (or nothing when it waits for a held
   mutex).  No proofs here (Proofs/ContStoreProofs.v). *)
From RipV Require Import Base.Prelude Model.Frames Model.Log.

(* ---------- the per-thread sidecar continuity_streams/<id>.jsonl ---------- *)
Inductive sline := SGood (f : frame) | SJunk.          (* a parsable frame line / anything else *)

Definition line_ok (c : N) (ln : sline) : option frame :=
  match ln with
  | SGood f => if in_stream KContinuity c f then Some f else None   (* header must name this thread *)
  | SJunk => None
  end.

(* try_read_last_seq: seq of the LAST line only (backward scan, 1 header) *)
Definition side_tail (c : N) (sd : option (list sline)) : option N :=
  match sd with
  | None => None
  | Some lines => match hd_error (rev lines) with
                  | Some ln => option_map seq (line_ok c ln)
                  | None => None
                  end
  end.

(* try_replay: every line parses, names this thread, seqs are 0,1,2,.. and there is >= 1 line *)
Fixpoint replay_lines (c : N) (expect : N) (lines : list sline) : option (list frame) :=
  match lines with
  | [] => Some []
  | ln :: r => match line_ok c ln with
               | Some f => if seq f =? expect
                           then option_map (cons f) (replay_lines c (expect + 1) r) else None
               | None => None
               end
  end.
Definition try_replay (c : N) (sd : option (list sline)) : option (list frame) :=
  match sd with
  | None => None
  | Some lines => match replay_lines c 0 lines with
                  | Some (f :: r) => Some (f :: r)
                  | _ => None
                  end
  end.

Definition upd {A} (m : N -> A) (k : N) (v : A) : N -> A := fun x => if x =? k then v else m x.

(* ---------- micro-steps ---------- *)
Inductive mstep :=
| MTarget (c : N)                 (* the thread id argument of the call *)
| MPickNewest                     (* a client that read thread.list: target := newest listed thread *)
| MLock                           (* self.next_seq.lock() bound to a guard *)
| MChoose                         (* next_seq.get(id) or load_next_seq_for(id) (+ insert); Err => return *)
| MLogAppend (t : etype) (ar : list N)          (* self.event_log.append(&event)? with the chosen seq *)
| MSidecar                        (* stream_cache.append_best_effort(&event) *)
| MBcast                          (* sender.send(event) *)
| MAdvance                        (* next_seq.insert(id, seq + 1) *)
| MUnlock                         (* guard dropped *)
| MAlloc                          (* Uuid::new_v4() for a new thread *)
| MLogAppendFixed (n : N) (t : etype) (ar : list N)   (* event with literal seq n on the new thread *)
| MIndexInsert                    (* index.continuities.insert + save_index: the id becomes listable *)
| MSetNext (n : N)                (* next_seq.insert(new id, n) through a guard this actor holds *)
| MSetNextLocked (n : N)          (* self.next_seq.lock().insert(new id, n): own temporary guard *)
| MRead                           (* replay_events(id): may rebuild the sidecar, never writes the log *)
| MSessEmit (t : etype)           (* session.rs emit_event: seq from the run-local counter *)
| MTaskLock | MTaskChoose | MTaskAppend (t : etype) | MTaskUnlock   (* TaskEmitter::emit *)
| MUnknown.                       (* extractor could not classify a statement *)

(* history variable (never read by `step` to decide behaviour): where a well-formed program is *)
Inductive phase :=
| PIdle | PLocked | PChosen | PLogged (sc : bool) | PAdvanced | PAlloc | PChild (k : N) (sc nx : bool)
| PTLocked | PTChosen | PTLogged.

Definition is_cont (t : etype) : bool := skind_eqb (kind_of t) KContinuity.
Definition is_sess (t : etype) : bool := skind_eqb (kind_of t) KSession.
Definition is_task (t : etype) : bool := skind_eqb (kind_of t) KTask.

Definition next_phase (ph : phase) (m : mstep) : option phase :=
  match ph, m with
  | PIdle, MTarget _ | PIdle, MPickNewest | PIdle, MRead => Some PIdle
  | PIdle, MSessEmit t => if is_sess t then Some PIdle else None
  | PIdle, MLock => Some PLocked
  | PLocked, MChoose => Some PChosen
  | PLocked, MAlloc => Some PAlloc
  | PLocked, MUnlock => Some PIdle
  (* `event_log.append(&event)?` returned Err: the call ends with the seq chosen (the counter possibly
     loaded from the log on first use) and nothing written; the guard is dropped *)
  | PChosen, MUnlock => Some PIdle
  | PAlloc, MUnlock => Some PIdle
  | PChosen, MLogAppend t _ => if is_cont t then Some (PLogged false) else None
  | PLogged _, MSidecar => Some (PLogged true)
  | PLogged sc, MBcast => Some (PLogged sc)
  | PLogged true, MAdvance => Some PAdvanced
  | PAdvanced, MBcast => Some PAdvanced
  | PAdvanced, MUnlock => Some PIdle
  | PAlloc, MLogAppendFixed n t _ => if (n =? 0) && is_cont t then Some (PChild 1 false false) else None
  | PChild k _ _, MLogAppendFixed n t _ => if (n =? k) && is_cont t then Some (PChild (k + 1) false false) else None
  | PChild k _ nx, MSidecar => Some (PChild k true nx)
  | PChild k sc nx, MBcast | PChild k sc nx, MIndexInsert => Some (PChild k sc nx)
  | PChild k sc _, MSetNext n => if n =? k then Some (PChild k sc true) else None
  (* `save_index(..)?` of create_continuity_locked returned Err: the child's seq-0 frame is logged, sidecar written,
     listed in memory; its counter was never recorded; the guard is dropped (k = 1, nx = false) *)
  | PChild k true nx, MUnlock => if nx || (k =? 1) then Some PIdle else None
  | PIdle, MTaskLock => Some PTLocked
  | PTLocked, MTaskChoose => Some PTChosen
  | PTChosen, MBcast => Some PTChosen
  | PTChosen, MTaskAppend t => if is_task t then Some PTLogged else None
  | PTLogged, MTaskUnlock => Some PIdle
  | _, _ => None
  end.

Definition phase_idle (ph : phase) : bool := match ph with PIdle => true | _ => false end.

Fixpoint wf_from (ph : phase) (prog : list mstep) : bool :=
  match prog with
  | [] => phase_idle ph
  | m :: r => match next_phase ph m with Some ph' => wf_from ph' r | None => false end
  end.
(* a whole call / sequence of calls *)
Definition wf_prog (prog : list mstep) : bool := wf_from PIdle prog.

(* ---------- actors and state ---------- *)
Record proc := {
  p_rem : list mstep;       (* micro-steps still to run *)
  p_ph : phase;             (* history variable *)
  p_cid : option N;         (* thread id the current call works on *)
  p_seq : option N;         (* `seq` local of the append function / task emit *)
  p_last : option frame;    (* `event` local: the frame this call appended last *)
  p_child : option N;       (* id of the thread being created *)
  p_sess : N;               (* stream id of a run (session) or task actor *)
  p_cnt : N                 (* run-local seq counter of a session actor *)
}.

Record state := {
  s_log : log;                            (* events.jsonl, file order *)
  s_side : N -> option (list sline);      (* sidecars *)
  s_next : N -> option N;                 (* in-memory next_seq cache *)
  s_index : list N;                       (* listable thread ids, insertion order *)
  s_fresh : N;                            (* uuid source *)
  s_mu : option N;                        (* holder of the next_seq mutex *)
  s_tcnt : N -> N;                        (* TaskHandle.seq per task *)
  s_tmu : N -> option N;                  (* holder of each task's seq mutex *)
  s_procs : N -> option proc
}.

Definition set_store (st : state) (l : log) (sd : N -> option (list sline)) (nx : N -> option N)
           (ix : list N) (fr : N) (mu : option N) : state :=
  {| s_log := l; s_side := sd; s_next := nx; s_index := ix; s_fresh := fr; s_mu := mu;
     s_tcnt := s_tcnt st; s_tmu := s_tmu st; s_procs := s_procs st |}.
Definition set_proc (st : state) (a : N) (p : proc) : state :=
  {| s_log := s_log st; s_side := s_side st; s_next := s_next st; s_index := s_index st;
     s_fresh := s_fresh st; s_mu := s_mu st; s_tcnt := s_tcnt st; s_tmu := s_tmu st;
     s_procs := upd (s_procs st) a (Some p) |}.
Definition set_task (st : state) (tc : N -> N) (tm : N -> option N) : state :=
  {| s_log := s_log st; s_side := s_side st; s_next := s_next st; s_index := s_index st;
     s_fresh := s_fresh st; s_mu := s_mu st; s_tcnt := tc; s_tmu := tm; s_procs := s_procs st |}.

Definition phase_after (ph : phase) (m : mstep) : phase :=
  match next_phase ph m with Some x => x | None => ph end.

(* the program counter moves past `m` *)
Definition pop (p : proc) (m : mstep) (r : list mstep) (cid seqv : option N) (lastv : option frame)
           (child : option N) (cnt : N) : proc :=
  {| p_rem := r; p_ph := phase_after (p_ph p) m; p_cid := cid; p_seq := seqv; p_last := lastv;
     p_child := child; p_sess := p_sess p; p_cnt := cnt |}.
Definition pop_same (p : proc) (m : mstep) (r : list mstep) : proc :=
  pop p m r (p_cid p) (p_seq p) (p_last p) (p_child p) (p_cnt p).
(* `?` / early return: the call ends (the actor goes on with its next call, if any), its guard
   (if any) is dropped.  A call starts with the step that fixes its target. *)
Definition call_start (m : mstep) : bool :=
  match m with MTarget _ | MPickNewest => true | _ => false end.
Fixpoint skip_call (r : list mstep) : list mstep :=
  match r with
  | [] => []
  | m :: r' => if call_start m then r else skip_call r'
  end.
Definition aborted (p : proc) (r : list mstep) : proc :=
  {| p_rem := skip_call r; p_ph := PIdle; p_cid := p_cid p; p_seq := None; p_last := None;
     p_child := p_child p; p_sess := p_sess p; p_cnt := p_cnt p |}.
Definition release (mu : option N) (a : N) : option N :=
  match mu with Some h => if h =? a then None else mu | None => None end.
Definition abort (st : state) (a : N) (p : proc) (r : list mstep) : state :=
  set_proc (set_store st (s_log st) (s_side st) (s_next st) (s_index st) (s_fresh st) (release (s_mu st) a))
           a (aborted p r).

(* replay_events(c): sidecar if it validates, else validated truth replay (+ rebuild when non-empty).
   None = Err (the whole log does not validate). *)
Definition replay_events (st : state) (c : N) : option (list frame) * (N -> option (list sline)) :=
  match try_replay c (s_side st c) with
  | Some fs => (Some fs, s_side st)
  | None =>
    if validate (s_log st)
    then let fs := cstream c (s_log st) in
         (Some fs, match fs with [] => s_side st | _ => upd (s_side st) c (Some (map SGood fs)) end)
    else (None, s_side st)
  end.

(* load_next_seq_for(c) after the S3 repair (/repo 0b0d2b0): the LOG decides.  EventLog::last_seq
   scans events.jsonl backwards for the last frame of the stream (no whole-log validation); when the
   sidecar tail does not name the same seq the sidecar is rebuilt from a validated replay (best
   effort).  (The third branch of the code - the log itself is unreadable - has no counterpart:
   the model's log is always a list of frames.) *)
Definition load_next (st : state) (c : N) : option N * (N -> option (list sline)) :=
  match last_seq (cstream c (s_log st)) with
  | Some q =>
    let rebuilt := if validate (s_log st)
                   then upd (s_side st) c (Some (map SGood (cstream c (s_log st)))) else s_side st in
    (Some (q + 1),
     match side_tail c (s_side st c) with
     | Some q' => if q' =? q then s_side st else rebuilt
     | None => rebuilt
     end)
  | None => (None, s_side st)
  end.

(* load_next_seq_for(c) as it was before that repair: numbered from the sidecar tail (S3) *)
Definition load_next_unfixed (st : state) (c : N) : option N * (N -> option (list sline)) :=
  match side_tail c (s_side st c) with
  | Some q => (Some (q + 1), s_side st)
  | None =>
    let '(r, sd) := replay_events st c in
    match r with
    | Some fs => (option_map (fun q => q + 1) (last_seq fs), sd)
    | None => (None, sd)
    end
  end.

Definition mk_frame (st : state) (c n : N) (t : etype) (ar : list N) : frame :=
  {| fid := s_fresh st; sid := c; seq := n; ety := t; args := ar |}.

(* append_best_effort: open(create, append) + one line.  After a torn tail (SJunk = an unterminated
   partial line, the only junk the fault model produces) the new line is glued onto it and the
   result is still one unparsable line. *)
Definition side_append (sd : N -> option (list sline)) (f : frame) : N -> option (list sline) :=
  let ls := match sd (sid f) with Some ls => ls | None => [] end in
  match hd_error (rev ls) with
  | Some SJunk => sd
  | _ => upd sd (sid f) (Some (ls ++ [SGood f]))
  end.

Definition loader := state -> N -> option N * (N -> option (list sline)).
Definition exec_m_gen (ld : loader) (st : state) (a : N) (p : proc) (m : mstep) (r : list mstep) : state :=
  let keep := set_proc st a (pop_same p m r) in
  match m with
  | MTarget c => set_proc st a (pop p m r (Some c) (p_seq p) (p_last p) (p_child p) (p_cnt p))
  | MPickNewest =>
    match hd_error (rev (s_index st)) with
    | Some c => set_proc st a (pop p m r (Some c) (p_seq p) (p_last p) (p_child p) (p_cnt p))
    | None => abort st a p r
    end
  | MLock =>
    match s_mu st with
    | None => set_proc (set_store st (s_log st) (s_side st) (s_next st) (s_index st) (s_fresh st) (Some a))
                       a (pop_same p m r)
    | Some _ => st                                          (* blocked *)
    end
  | MChoose =>
    match p_cid p with
    | None => abort st a p r
    | Some c =>
      match s_next st c with
      | Some n => set_proc st a (pop p m r (p_cid p) (Some n) (p_last p) (p_child p) (p_cnt p))
      | None =>
        let '(res, sd) := ld st c in
        match res with
        | Some n =>
          set_proc (set_store st (s_log st) sd (upd (s_next st) c (Some n)) (s_index st) (s_fresh st) (s_mu st))
                   a (pop p m r (p_cid p) (Some n) (p_last p) (p_child p) (p_cnt p))
        | None => abort (set_store st (s_log st) sd (s_next st) (s_index st) (s_fresh st) (s_mu st)) a p r
        end
      end
    end
  | MLogAppend t ar =>
    match p_cid p, p_seq p with
    | Some c, Some n =>
      let f := mk_frame st c n t ar in
      set_proc (set_store st (s_log st ++ [f]) (s_side st) (s_next st) (s_index st) (s_fresh st + 1) (s_mu st))
               a (pop p m r (p_cid p) (p_seq p) (Some f) (p_child p) (p_cnt p))
    | _, _ => abort st a p r
    end
  | MSidecar =>
    match p_last p with
    | Some f => set_proc (set_store st (s_log st) (side_append (s_side st) f) (s_next st) (s_index st)
                                    (s_fresh st) (s_mu st)) a (pop_same p m r)
    | None => keep
    end
  | MBcast => keep
  | MAdvance =>
    match p_cid p, p_seq p with
    | Some c, Some n =>
      set_proc (set_store st (s_log st) (s_side st) (upd (s_next st) c (Some (n + 1))) (s_index st)
                          (s_fresh st) (s_mu st))
               a (pop p m r (p_cid p) None (p_last p) (p_child p) (p_cnt p))
    | _, _ => abort st a p r
    end
  | MUnlock =>
    set_proc (set_store st (s_log st) (s_side st) (s_next st) (s_index st) (s_fresh st) (release (s_mu st) a))
             a (pop p m r (p_cid p) None None (p_child p) (p_cnt p))
  | MAlloc =>
    set_proc (set_store st (s_log st) (s_side st) (s_next st) (s_index st) (s_fresh st + 1) (s_mu st))
             a (pop p m r (p_cid p) (p_seq p) (p_last p) (Some (s_fresh st)) (p_cnt p))
  | MLogAppendFixed n t ar =>
    match p_child p with
    | Some c =>
      let f := mk_frame st c n t ar in
      set_proc (set_store st (s_log st ++ [f]) (s_side st) (s_next st) (s_index st) (s_fresh st + 1) (s_mu st))
               a (pop p m r (p_cid p) (p_seq p) (Some f) (p_child p) (p_cnt p))
    | None => abort st a p r
    end
  | MIndexInsert =>
    match p_child p with
    | Some c => set_proc (set_store st (s_log st) (s_side st) (s_next st) (s_index st ++ [c]) (s_fresh st) (s_mu st))
                         a (pop_same p m r)
    | None => abort st a p r
    end
  | MSetNext n =>
    match p_child p with
    | Some c => set_proc (set_store st (s_log st) (s_side st) (upd (s_next st) c (Some n)) (s_index st)
                                    (s_fresh st) (s_mu st)) a (pop_same p m r)
    | None => abort st a p r
    end
  | MSetNextLocked n =>
    match s_mu st, p_child p with
    | Some _, _ => st                                       (* blocked *)
    | None, Some c => set_proc (set_store st (s_log st) (s_side st) (upd (s_next st) c (Some n)) (s_index st)
                                          (s_fresh st) (s_mu st)) a (pop_same p m r)
    | None, None => abort st a p r
    end
  | MRead =>
    match p_cid p with
    | Some c => set_proc (set_store st (s_log st) (snd (replay_events st c)) (s_next st) (s_index st)
                                    (s_fresh st) (s_mu st)) a (pop_same p m r)
    | None => keep
    end
  | MSessEmit t =>
    let f := mk_frame st (p_sess p) (p_cnt p) t [] in
    set_proc (set_store st (s_log st ++ [f]) (s_side st) (s_next st) (s_index st) (s_fresh st + 1) (s_mu st))
             a (pop p m r (p_cid p) (p_seq p) (p_last p) (p_child p) (p_cnt p + 1))
  | MTaskLock =>
    match s_tmu st (p_sess p) with
    | None => set_proc (set_task st (s_tcnt st) (upd (s_tmu st) (p_sess p) (Some a))) a (pop_same p m r)
    | Some _ => st
    end
  | MTaskChoose =>       (* seq = *guard; *guard += 1  (advance BEFORE the append, tasks/mod.rs:513-521) *)
    let n := s_tcnt st (p_sess p) in
    set_proc (set_task st (upd (s_tcnt st) (p_sess p) (n + 1)) (s_tmu st))
             a (pop p m r (p_cid p) (Some n) (p_last p) (p_child p) (p_cnt p))
  | MTaskAppend t =>
    match p_seq p with
    | Some n =>
      let f := mk_frame st (p_sess p) n t [] in
      set_proc (set_store st (s_log st ++ [f]) (s_side st) (s_next st) (s_index st) (s_fresh st + 1) (s_mu st))
               a (pop p m r (p_cid p) None (p_last p) (p_child p) (p_cnt p))
    | None => abort st a p r
    end
  | MTaskUnlock =>
    set_proc (set_task st (s_tcnt st) (upd (s_tmu st) (p_sess p) (release (s_tmu st (p_sess p)) a)))
             a (pop_same p m r)
  | MUnknown => keep
  end.

Definition exec_m := exec_m_gen load_next.

Definition step_gen (ld : loader) (st : state) (a : N) : state :=
  match s_procs st a with
  | None => st
  | Some p => match p_rem p with
              | [] => st
              | m :: r => exec_m_gen ld st a p m r
              end
  end.
Definition step := step_gen load_next.

Fixpoint run_gen (ld : loader) (sched : list N) (st : state) : state :=
  match sched with
  | [] => st
  | a :: r => run_gen ld r (step_gen ld st a)
  end.
Definition run := run_gen load_next.

(* ---------- spawning, restart ---------- *)
Definition new_proc (prog : list mstep) (sess : N) : proc :=
  {| p_rem := prog; p_ph := PIdle; p_cid := None; p_seq := None; p_last := None; p_child := None;
     p_sess := sess; p_cnt := 0 |}.

(* actors 0,1,2,.. run the given programs; (program, stream id for session/task actors) *)
Fixpoint procs_of (i : N) (ps : list (list mstep * N)) : N -> option proc :=
  match ps with
  | [] => fun _ => None
  | (prog, sess) :: r => upd (procs_of (i + 1) r) i (Some (new_proc prog sess))
  end.

Definition spawn (ps : list (list mstep * N)) (st : state) : state :=
  {| s_log := s_log st; s_side := s_side st; s_next := s_next st; s_index := s_index st;
     s_fresh := s_fresh st; s_mu := s_mu st; s_tcnt := s_tcnt st; s_tmu := s_tmu st;
     s_procs := procs_of 0 ps |}.

(* authority restart: every in-memory structure is lost, the files stay.  Tasks do not survive a
   restart and a task id is a uuid minted when the task is spawned, so the TaskHandle counter of a
   task that does not exist (yet / any more) is modelled as the number of frames its stream has -
   0 for every id a spawn can mint.  (A program that re-used the id of a dead task would go on
   numbering its stream here; the implementation cannot express such a program.) *)
Definition restart (st : state) : state :=
  {| s_log := s_log st; s_side := s_side st; s_next := fun _ => None; s_index := s_index st;
     s_fresh := s_fresh st; s_mu := None; s_tcnt := fun t => next_of KTask t (s_log st);
     s_tmu := fun _ => None; s_procs := fun _ => None |}.

Definition empty_state : state :=
  {| s_log := []; s_side := fun _ => None; s_next := fun _ => None; s_index := []; s_fresh := 0;
     s_mu := None; s_tcnt := fun _ => 0; s_tmu := fun _ => None; s_procs := fun _ => None |}.

(* one actor alone, to completion (every step of a lone actor is enabled once mutexes are free) *)
Definition exec (prog : list mstep) (st : state) : state :=
  run (repeat 0 (length prog)) (spawn [(prog, 0)] st).

(* ---------- the call skeletons (compared with the source by Gen/AppendOps.v) ---------- *)
(* the 11 locked appends (append_message ... append_tool_side_effects) *)
Definition locked_append (t : etype) (ar : list N) : list mstep :=
  [MLock; MChoose; MLogAppend t ar; MSidecar; MBcast; MAdvance; MUnlock].

(* create_continuity / branch / handoff AS REPAIRED (fix: the new thread's frames are written and its
   counter is set while the seq mutex is held) *)
Definition create_locked (ar : list N) : list mstep :=
  [MLock; MAlloc; MLogAppendFixed 0 EContinuityCreated ar; MSidecar; MBcast; MIndexInsert; MSetNext 1].
Definition create_prog (ar : list N) : list mstep := create_locked ar ++ [MUnlock].
Definition lineage_prog (t : etype) (ar_created ar_lineage : list N) : list mstep :=
  create_locked ar_created ++ [MLogAppendFixed 1 t ar_lineage; MSidecar; MBcast; MSetNext 2; MUnlock].

(* the same three as they were before the repair (S5): fixed-seq appends outside the mutex, the
   counter forced afterwards through a temporary guard *)
Definition create_unfixed (ar : list N) : list mstep :=
  [MAlloc; MLogAppendFixed 0 EContinuityCreated ar; MSidecar; MBcast; MIndexInsert; MSetNextLocked 1].
Definition lineage_unfixed (t : etype) (ar_created ar_lineage : list N) : list mstep :=
  create_unfixed ar_created ++ [MLogAppendFixed 1 t ar_lineage; MSidecar; MBcast; MSetNextLocked 2].

(* a run: n frames on its own session stream; a task emitter call *)
Definition session_prog (ts : list etype) : list mstep := map MSessEmit ts.
Definition task_emit (t : etype) : list mstep := [MTaskLock; MTaskChoose; MBcast; MTaskAppend t; MTaskUnlock].

(* ---------- cache faults applied between phases (harness: edits of the sidecar file) ---------- *)
Inductive fault :=
| FDelete (c : N)            (* remove the file *)
| FCutLine (c : N)           (* drop the last line at a line boundary: well-formed stale prefix *)
| FRollback (c : N) (k : nat) (* drop the last k lines *)
| FTearTail (c : N)          (* cut inside the last line: unparsable tail *)
| FEmpty (c : N).            (* truncate to 0 bytes *)

Definition apply_fault (sd : N -> option (list sline)) (f : fault) : N -> option (list sline) :=
  match f with
  | FDelete c => upd sd c None
  | FCutLine c => match sd c with Some ls => upd sd c (Some (removelast ls)) | None => sd end
  | FRollback c k => match sd c with Some ls => upd sd c (Some (firstn (length ls - k) ls)) | None => sd end
  | FTearTail c => match sd c with
                   | Some ls => match ls with [] => sd | _ => upd sd c (Some (removelast ls ++ [SJunk])) end
                   | None => sd end
  | FEmpty c => match sd c with Some _ => upd sd c (Some []) | None => sd end
  end.

Definition with_side (st : state) (sd : N -> option (list sline)) : state :=
  set_store st (s_log st) sd (s_next st) (s_index st) (s_fresh st) (s_mu st).

(* ---------- observations ---------- *)
(* streams are named by first appearance in file order, so model and implementation need not agree
   on ids: [canon stream; seq; etype] per frame, file order *)
Fixpoint canon_find (keys : list (skind * N)) (k : skind) (s : N) (i : N) : option N :=
  match keys with
  | [] => None
  | (k', s') :: r => if skind_eqb k k' && (s =? s') then Some i else canon_find r k s (i + 1)
  end.
Fixpoint canon_log_aux (keys : list (skind * N)) (l : log) : list N :=
  match l with
  | [] => []
  | f :: r =>
    match canon_find keys (fkind f) (sid f) 0 with
    | Some i => i :: seq f :: etype_code (ety f) :: canon_log_aux keys r
    | None => nlen keys :: seq f :: etype_code (ety f) :: canon_log_aux (keys ++ [(fkind f, sid f)]) r
    end
  end.
Definition canon_log (l : log) : list N := canon_log_aux [] l.

(* ids of the threads in creation (file) order *)
Definition created_ids (l : log) : list N := map sid (filter (is_etype EContinuityCreated) l).
Definition nth_thread (l : log) (k : nat) : N := nth k (created_ids l) 4294967295.

(* ---------- public capabilities as programs (C02) ----------
   What a capability appends depends on its arguments and on facts its validators / planner compute
   from the thread (not modelled here: the harness passes what the implementation reported). *)
Inductive cap :=
| CapList | CapGet | CapSubscribe                        (* index / channel only *)
| CapReplay | CapCutPoints | CapCompactionStatus | CapCursorStatus | CapSelectionStatus   (* read-only *)
| CapEnsureDefault
| CapAppend (t : etype)                                  (* the 11 append_* functions *)
| CapPost                                                (* POST /threads/{id}/messages *)
| CapBranch | CapHandoff
| CapCheckpoint                                          (* compaction_checkpoint_cumulative_v1 *)
| CapCursorRotate
| CapAuto | CapAutoSchedule.

Record cfacts := {
  cf_ok : bool;        (* validation passed / a cursor was found / no default thread existed yet *)
  cf_stride0 : bool;   (* stride_messages = Some(0) *)
  cf_dry : bool;       (* dry_run = Some(true) *)
  cf_planned : nat;    (* cut points the planner returned *)
  cf_inflight : bool;  (* schedule: block_on_inflight and an inflight job was found *)
  cf_execute : bool;   (* schedule: execute *)
  cf_created : nat;    (* checkpoints the job wrote before it finished or failed *)
  cf_ended : bool      (* the job reached its job_ended frame *)
}.

Definition run_job (f : cfacts) : list mstep :=
  [MRead] ++ concat (repeat (locked_append EContinuityCompactionCheckpointCreated []) (cf_created f))
  ++ (if cf_ended f then locked_append EContinuityJobEnded [] else []).

Definition cap_prog (cp : cap) (c : N) (f : cfacts) : list mstep :=
  match cp with
  | CapList | CapGet | CapSubscribe => []
  | CapReplay | CapCutPoints | CapCompactionStatus | CapCursorStatus | CapSelectionStatus =>
    [MTarget c; MRead]
  | CapEnsureDefault => if cf_ok f then create_prog [] else []
  | CapAppend t => MTarget c :: locked_append t []
  | CapPost => MTarget c :: locked_append EContinuityMessageAppended []
                         ++ locked_append EContinuityRunSpawned []
  | CapBranch => [MTarget c; MRead] ++ (if cf_ok f then lineage_prog EContinuityBranched [] [] else [])
  | CapHandoff => [MTarget c; MRead] ++ (if cf_ok f then lineage_prog EContinuityHandoffCreated [] [] else [])
  | CapCheckpoint =>
    [MTarget c; MRead] ++ (if cf_ok f then locked_append EContinuityCompactionCheckpointCreated [] else [])
  | CapCursorRotate =>
    [MTarget c; MRead] ++ (if cf_ok f then locked_append EContinuityProviderCursorUpdated [] else [])
  | CapAuto =>
    if cf_stride0 f then []
    else [MTarget c; MRead]
         ++ (if cf_dry f || Nat.eqb (cf_planned f) 0 then []
             else locked_append EContinuityJobSpawned [] ++ run_job f)
  | CapAutoSchedule =>
    if cf_stride0 f then []
    else [MTarget c; MRead]
         ++ (if cf_dry f || Nat.eqb (cf_planned f) 0 then []
             else if cf_inflight f then locked_append EContinuityCompactionAutoScheduleDecided []
             else locked_append EContinuityJobSpawned []
                  ++ locked_append EContinuityCompactionAutoScheduleDecided []
                  ++ (if cf_execute f then run_job f else []))
  end.

(* the invocations C02 names: status, cut-point, replay, streaming, dry-run and no-op *)
Definition silent (cp : cap) (f : cfacts) : bool :=
  match cp with
  | CapList | CapGet | CapSubscribe | CapReplay | CapCutPoints | CapCompactionStatus
  | CapCursorStatus | CapSelectionStatus => true
  | CapEnsureDefault | CapBranch | CapHandoff | CapCheckpoint | CapCursorRotate => negb (cf_ok f)
  | CapAppend _ | CapPost => false
  | CapAuto | CapAutoSchedule => cf_stride0 f || cf_dry f || Nat.eqb (cf_planned f) 0
  end.

Definition appends (m : mstep) : bool :=
  match m with
  | MLogAppend _ _ | MLogAppendFixed _ _ _ | MSessEmit _ | MTaskAppend _ => true
  | _ => false
  end.

(* name used by the source for each capability, and whether some argument makes it append
   (compared with the call graph of continuities.rs by Gen/Effects.v) *)
Definition cap_can_append (cp : cap) : bool :=
  match cp with
  | CapList | CapGet | CapSubscribe | CapReplay | CapCutPoints | CapCompactionStatus
  | CapCursorStatus | CapSelectionStatus => false
  | _ => true
  end.

(* ---------- C02 correspondence: a history of calls, cache faults and restarts ---------- *)
Inductive fkind02 := XDelete | XCutLine | XTearTail | XEmpty | XRollback (k : nat).
Inductive call :=
| KCap (cp : cap) (th : nat) (f : cfacts)    (* th: ordinal of the thread in creation order; unknown id if too big *)
| KFault (x : fkind02) (th : nat)
| KRestart.

Definition mk_fault (x : fkind02) (c : N) : fault :=
  match x with XDelete => FDelete c | XCutLine => FCutLine c | XTearTail => FTearTail c | XEmpty => FEmpty c
  | XRollback k => FRollback c k end.

Definition do_call (st : state) (k : call) : state :=
  match k with
  | KCap cp th f => exec (cap_prog cp (nth_thread (s_log st) th) f) st
  | KFault x th => with_side st (apply_fault (s_side st) (mk_fault x (nth_thread (s_log st) th)))
  | KRestart => restart st
  end.

(* observation: number of frames in the log after every call, then the whole log canonically *)
Fixpoint run_calls (st : state) (ks : list call) : list N * state :=
  match ks with
  | [] => ([], st)
  | k :: r => let st' := do_call st k in
              let '(ns, fin) := run_calls st' r in (nlen (s_log st') :: ns, fin)
  end.

Record case02 := { c2_calls : list call; c2_expect : list N }.
Definition model_obs_c02 (c : case02) : list N :=
  let '(ns, fin) := run_calls empty_state (c2_calls c) in ns ++ canon_log (s_log fin).
Definition check_case_c02 (c : case02) : bool := lN_eqb (model_obs_c02 c) (c2_expect c).

(* ---------- C01 correspondence: sequential setup history, then concurrent actors under a schedule ---------- *)
Definition fact_ok : cfacts :=
  {| cf_ok := true; cf_stride0 := false; cf_dry := false; cf_planned := 0%nat; cf_inflight := false;
     cf_execute := false; cf_created := 0%nat; cf_ended := false |}.

Inductive cop :=
| OAppend (t : etype) (th : nat)     (* one of the locked append functions on the th-th thread *)
| OPostNewest                        (* a client lists the threads and posts to the newest one *)
| OBranch (th : nat)
| OHandoff (th : nat)
| ORead (th : nat)                   (* replay_events (status / cut points / stream replay) *)
| OTaskEmit (t : etype).             (* TaskEmitter::emit on THE task of the case (stream id 0) *)

Definition prog_of_cop (l : log) (o : cop) : list mstep :=
  match o with
  | OAppend t th => MTarget (nth_thread l th) :: locked_append t []
  | OPostNewest => MPickNewest :: locked_append EContinuityMessageAppended []
  | OBranch th => [MTarget (nth_thread l th); MRead] ++ lineage_prog EContinuityBranched [] []
  | OHandoff th => [MTarget (nth_thread l th); MRead] ++ lineage_prog EContinuityHandoffCreated [] []
  | ORead th => [MTarget (nth_thread l th); MRead]
  | OTaskEmit t => task_emit t
  end.

(* the same calls as the code was before the S5 repair *)
Definition prog_of_cop_unfixed (l : log) (o : cop) : list mstep :=
  match o with
  | OBranch th => [MTarget (nth_thread l th); MRead] ++ lineage_unfixed EContinuityBranched [] []
  | OHandoff th => [MTarget (nth_thread l th); MRead] ++ lineage_unfixed EContinuityHandoffCreated [] []
  | _ => prog_of_cop l o
  end.

Record case01 := {
  c1_setup : list call;             (* sequential history incl. sidecar faults and restarts *)
  c1_actors : list (list cop);      (* actor i runs its calls one after the other *)
  c1_sched : list N;                (* one entry per micro-step granted *)
  c1_expect : list N
}.

Definition actors_of (l : log) (acts : list (list cop)) : list (list mstep * N) :=
  map (fun ops => (concat (map (prog_of_cop l) ops), 0)) acts.

Definition run_case01 (c : case01) : state :=
  let '(_, st) := run_calls empty_state (c1_setup c) in
  run (c1_sched c) (spawn (actors_of (s_log st) (c1_actors c)) st).

(* observation: did the final log validate (rip-log's validator), then the whole log canonically *)
Definition model_obs_c01 (c : case01) : list N :=
  let l := s_log (run_case01 c) in (if validate l then 1 else 0) :: canon_log l.
Definition check_case_c01 (c : case01) : bool := lN_eqb (model_obs_c01 c) (c1_expect c).
