(* Shared log model (DESIGN section 3): the truth log as a list of frames in file order, per-stream
   filters, the replay-time validator of rip-log, and the byte view of the file.  No proofs here
   (Proofs/LogProofs.v: validate_spec, Valid_snoc, log_bytes lemmas). *)
From RipV Require Import Base.Prelude Model.Frames.

Definition log := list frame.

(* stream key = (stream_kind(), stream_id()) *)
Definition in_stream (k : skind) (s : N) (f : frame) : bool := skind_eqb (fkind f) k && (sid f =? s).
Definition stream (k : skind) (s : N) (l : log) : list frame := filter (in_stream k s) l.
Definition cstream (c : N) (l : log) : list frame := stream KContinuity c l.

(* number of frames of a stream = the seq its next frame must carry *)
Definition next_of (k : skind) (s : N) (l : log) : N := nlen (stream k s l).

(* [start; start+1; ...] of the given length *)
Fixpoint nseq (start : N) (len : nat) : list N :=
  match len with O => [] | S n => start :: nseq (start + 1) n end.

(* validate_event_order (rip-log/src/lib.rs:139-160), line by line:
     expected: HashMap<(StreamKind,&str),u64>;  for event in events {
        entry = expected.entry(key).or_insert(0); if event.seq != *entry { Err } ; *entry += 1 }
   The map is a total function with default 0 (or_insert(0)). *)
Definition expmap := skind -> N -> N.
Definition exp0 : expmap := fun _ _ => 0.
Definition exp_bump (m : expmap) (k : skind) (s : N) : expmap :=
  fun k' s' => if skind_eqb k k' && (s =? s') then m k s + 1 else m k' s'.

Fixpoint validate_from (m : expmap) (l : log) : bool :=
  match l with
  | [] => true
  | f :: r =>
    if seq f =? m (fkind f) (sid f) then validate_from (exp_bump m (fkind f) (sid f)) r else false
  end.
Definition validate (l : log) : bool := validate_from exp0 l.

(* the property of C01: every stream carries 0,1,2,... without gap or duplicate, in file order *)
Definition Valid (l : log) : Prop :=
  forall k s, map seq (stream k s l) = nseq 0 (length (stream k s l)).

(* the seq of the last frame of a stream (what a reader of the stream's tail sees) *)
Definition last_seq (fs : list frame) : option N := option_map seq (hd_error (rev fs)).

(* ---------- byte view.  The frame printer is a parameter: the theorems hold for every printer
   that never emits LF inside a line (serde_json escapes control characters). ---------- *)
Definition bytes := list N.
Definition encode_line (enc : frame -> bytes) (f : frame) : bytes := enc f ++ [10].
Definition log_bytes (enc : frame -> bytes) (l : log) : bytes := concat (map (encode_line enc) l).

(* split a byte string into its LF-terminated lines + the unterminated rest *)
Fixpoint split_lines_aux (cur : bytes) (b : bytes) : list bytes * bytes :=
  match b with
  | [] => ([], rev cur)
  | x :: r => if x =? 10 then let '(ls, t) := split_lines_aux [] r in (rev cur :: ls, t)
              else split_lines_aux (x :: cur) r
  end.
Definition split_lines (b : bytes) : list bytes * bytes := split_lines_aux [] b.

Definition is_prefix_of (a b : bytes) : Prop := exists t, b = a ++ t.
