(* C01, two places where a stream's counter and the frames that reached the log can part:

   A. the provider pipe (crates/ripd/src/session.rs, OpenResponsesSsePipe): the session's run-local counter
      is lent to the pipe as `&mut u64`; every decoder push maps the parsed provider events to frames, numbers
      them `mapper.seq + seq_offset`, emits them and adds `frame_count` to the counter.  The stream ends at the
      terminal marker `[DONE]`: what follows it in the same push is cut.  WHERE the cut stands relative to the
      count decides whether the counter the pipe hands back is the number of frames it emitted.

   B. the continuity writers (crates/ripd/src/continuities.rs): `event_log.append(&event)?` may fail (disk
      full, file-size limit, I/O error).  The `?` returns and drops the seq-mutex guard; the thread's counter
      must then be where it was - the writer may advance it only after the append succeeded.

   Executable definitions only; proofs in Proofs/SeqCountProofs.v. *)
From RipV Require Import Base.Prelude Model.Frames Model.Log Model.ContStore Model.SessGuard.

(* ================= A. the pipe's counting ================= *)
(* a parsed provider event, as far as counting goes: is it the terminal marker, does the mapper add an
   output_text_delta frame to its provider_event frame (EventFrameMapper::map: 1 or 2 frames) *)
Record pev := { pv_done : bool; pv_delta : bool }.
Definition pe (d dl : bool) : pev := {| pv_done := d; pv_delta := dl |}.

(* a mapped frame: its kind, and whether it is the provider_event{status: done} frame *)
Definition fr := (etype * bool)%type.
Definition ev_frames (e : pev) : list fr :=
  (EProviderEvent, pv_done e) :: (if pv_delta e then [(EOutputTextDelta, false)] else []).
Definition map_evs (evs : list pev) : list fr := concat (map ev_frames evs).

Fixpoint upto_done (l : list pev) : list pev :=
  match l with [] => [] | e :: r => if pv_done e then [e] else e :: upto_done r end.
Fixpoint upto_done_fr (l : list fr) : list fr :=
  match l with [] => [] | f :: r => if snd f then [f] else f :: upto_done_fr r end.

(* where the cut after the terminal marker stands *)
Inductive cutk :=
| CutParsed             (* truncate_after_done(&mut parsed) before the mapper runs: /repo *)
| CutFramesAfterCount.  (* the mapped frames are cut after `frame_count = frames.len()` was taken
                           (the shape of seeded change C01-8) *)
Definition cutk_eqb (a b : cutk) : bool :=
  match a, b with CutParsed, CutParsed | CutFramesAfterCount, CutFramesAfterCount => true | _, _ => false end.
Definition PIPE_CUT : cutk := CutParsed.

(* one push_sse_str / finish: (frames mapped - the mapper numbers all of them -, frames emitted,
   frame_count added to the counter, saw_done) *)
Definition push (ck : cutk) (parsed : list pev) : list fr * list fr * N * bool :=
  match ck with
  | CutParsed =>
    let frames := map_evs (upto_done parsed) in (frames, frames, nlen frames, existsb pv_done parsed)
  | CutFramesAfterCount =>
    let frames := map_evs parsed in (frames, upto_done_fr frames, nlen frames, existsb (fun f => snd f) frames)
  end.

Record pstate := { ps_out : list (etype * N) (* sink: kind, seq *); ps_mseq : N (* mapper.seq *); ps_cnt : N (* *self.seq *) }.

Fixpoint number (s : N) (fs : list fr) : list (etype * N) :=
  match fs with [] => [] | f :: r => (fst f, s) :: number (s + 1) r end.

Section Pipe.
Variable ck : cutk.
Variable off : N.        (* seq_offset = *seq when the pipe is created *)

Definition emit_push (st : pstate) (parsed : list pev) : pstate * bool :=
  let '(mapped, emitted, count, d) := push ck parsed in
  ({| ps_out := ps_out st ++ number (off + ps_mseq st) emitted;
      ps_mseq := ps_mseq st + nlen mapped;
      ps_cnt := ps_cnt st + count |}, d).

(* the reader loop: push_bytes per chunk until saw_done *)
Fixpoint run_pushes (st : pstate) (pushes : list (list pev)) : pstate * bool :=
  match pushes with
  | [] => (st, false)
  | p :: r => let '(st1, d) := emit_push st p in if d then (st1, true) else run_pushes st1 r
  end.

(* how the stream ends when the marker was never seen: it just ends (pipe.finish(): what the decoder still
   holds) or it breaks (emit_transport_error: one frame at *self.seq, *self.seq += 1) *)
Inductive pend := EndFinish (fin : list pev) | EndTransportError.

Definition run_pipe (pushes : list (list pev)) (e : pend) : list (etype * N) * N :=
  let '(st, d) := run_pushes {| ps_out := []; ps_mseq := 0; ps_cnt := off |} pushes in
  if d then (ps_out st, ps_cnt st)
  else match e with
       | EndFinish fin => let st1 := fst (emit_push st fin) in (ps_out st1, ps_cnt st1)
       | EndTransportError => (ps_out st ++ [(EProviderEvent, ps_cnt st)], ps_cnt st + 1)
       end.
End Pipe.

(* a run (one session stream): single emit sites (frame at the counter, counter + 1: session.rs, the tool
   runner - Model/SessGuard.v run_frames) and provider pipes, each borrowing the counter *)
Inductive seg := SSite (t : etype) | SPipe (pushes : list (list pev)) (e : pend).

Definition mkf (sid : N) (x : etype * N) : frame := {| fid := 0; sid := sid; seq := snd x; ety := fst x; args := [] |}.
Fixpoint run_segs (ck : cutk) (sid cnt : N) (segs : list seg) : log :=
  match segs with
  | [] => []
  | SSite t :: r => mkf sid (t, cnt) :: run_segs ck sid (cnt + 1) r
  | SPipe ps e :: r => let '(out, cnt') := run_pipe ck cnt ps e in map (mkf sid) out ++ run_segs ck sid cnt' r
  end.
Definition seg_ok (s : seg) : bool := match s with SSite t => is_sess t | SPipe _ _ => true end.

(* correspondence: the real pipe (ripd::verif::run_sse_pipe) driven with the session's counter threaded
   through it - frames before, 1..3 pipes with frames between them, the closing frame -; the parsed events of
   every push are what the real SseDecoder makes of that chunk; observation = (seq, kind) of every frame of
   the stream in file order, then the counter at the end *)
Record case_pc := { pc_segs : list seg; pc_expect : list N }.
Fixpoint final_cnt (ck : cutk) (cnt : N) (segs : list seg) : N :=
  match segs with
  | [] => cnt
  | SSite _ :: r => final_cnt ck (cnt + 1) r
  | SPipe ps e :: r => final_cnt ck (snd (run_pipe ck cnt ps e)) r
  end.
Definition model_obs_pc (c : case_pc) : list N :=
  concat (map (fun f => [seq f; etype_code (ety f)]) (run_segs PIPE_CUT 0 0 (pc_segs c)))
  ++ [final_cnt PIPE_CUT 0 (pc_segs c)].
Definition check_case_pc (c : case_pc) : bool := lN_eqb (model_obs_pc c) (pc_expect c).

(* ================= B. a log append that fails ================= *)
(* the call whose k-th log append returns Err: it ran up to that append, `?` returns, the guard is dropped *)
Fixpoint fail_at (k : nat) (prog : list mstep) : list mstep :=
  match prog with
  | [] => []
  | m :: r => if appends m
              then match k with O => [MUnlock] | S k' => m :: fail_at k' r end
              else m :: fail_at k r
  end.
(* a locked append (any of the 11 append_* functions) whose log write failed *)
Definition failed_append : list mstep := [MLock; MChoose; MUnlock].

(* a writer that RESERVES its seq - the counter is advanced when the seq is chosen (the shape of seeded
   change C01-7: `take_seq` stores seq + 1 before the frame is in the log) - and whose log write failed *)
Definition reserved_failed_append : list mstep := [MLock; MChoose; MAdvance; MUnlock].

(* correspondence: a sequential history on ONE authority in which log writes are made to fail (fail point
   log.append / RLIMIT_FSIZE), the process keeps running and goes on appending *)
Inductive fcall :=
(* one call making locked appends on thread th, in order: Some t = a frame of kind t went in, None = the
   append was refused (message / run / tool / selection / compiled / cursor / checkpoint appends, cursor
   rotate, a compaction job run to completion) *)
| FAppends (th : nat) (tr : list (option etype))
(* branch / handoff of thread th whose k-th log append failed (None: none did) *)
| FLineage (t : etype) (th : nat) (k : option nat)
(* ensure_default on an authority without a default thread: create_continuity, its log append refused (Some 0) or not *)
| FCreate (k : option nat)
| FRestart.

Definition prog_of_fcall (l : log) (o : fcall) : list mstep :=
  match o with
  | FAppends th tr =>
    concat (map (fun x => MTarget (nth_thread l th) ::
                          match x with Some t => locked_append t [] | None => failed_append end) tr)
  | FLineage t th k =>
    [MTarget (nth_thread l th); MRead]
    ++ match k with Some k => fail_at k (lineage_prog t [] []) | None => lineage_prog t [] [] end
  | FCreate k => match k with Some k => fail_at k (create_prog []) | None => create_prog [] end
  | FRestart => []
  end.
Definition fcall_ok (o : fcall) : bool :=
  match o with
  | FAppends _ tr => forallb (fun x => match x with Some t => is_cont t | None => true end) tr
  | FLineage t _ _ => is_cont t
  | FCreate _ => true
  | FRestart => true
  end.

Definition do_fcall (st : state) (o : fcall) : state :=
  match o with
  | FRestart => restart st
  | _ => exec (prog_of_fcall (s_log st) o) st
  end.
(* observation: number of frames in the log after every call, the validator's verdict, the log canonically *)
Fixpoint run_fcalls (st : state) (os : list fcall) : list N * state :=
  match os with
  | [] => ([], st)
  | o :: r => let st' := do_fcall st o in
              let '(ns, fin) := run_fcalls st' r in (nlen (s_log st') :: ns, fin)
  end.
(* af_setup may be empty: the history then starts on an authority without any thread *)
Record case_af := { af_setup : list call; af_calls : list fcall; af_expect : list N }.
Definition model_obs_af (c : case_af) : list N :=
  let '(_, st) := run_calls empty_state (af_setup c) in
  let '(ns, fin) := run_fcalls st (af_calls c) in
  ns ++ (if validate (s_log fin) then 1 else 0) :: canon_log (s_log fin).
Definition check_case_af (c : case_af) : bool := lN_eqb (model_obs_af c) (af_expect c).

(* ================= C. the session / task emitters and a refused log write =================
   session.rs emit_event (and tasks/mod.rs TaskEmitter::emit): the frame is numbered from the run-local
   counter, recorded in the history buffer and published, THEN `event_log.append` is called and its result is
   dropped (`let _ =`); the counter moves either way.  A site is (kind, did the log write succeed). *)
Fixpoint emit_unchecked (sid cnt : N) (sites : list (etype * bool)) : log :=
  match sites with
  | [] => []
  | (t, ok) :: r => (if ok then [mkf sid (t, cnt)] else []) ++ emit_unchecked sid (cnt + 1) r
  end.
