(* C15 — executable model of the provider stream decoding path:
     bytes --push_bytes (UTF-8 carry-over, session.rs)--> text segments
           --SseDecoder::push/finish (rip-provider-openresponses/src/lib.rs)--> parsed events
           --EventFrameMapper::map + seq_offset (lib.rs / session.rs push_sse_str)--> frames.
   Strings are lists of code points (`str` of Base/Json.v).  In this file the classification of one
   payload (JSON parsing, schema validation, delta extraction) is the section variable `classify` (the
   frames depend on the payload only through it); Model/SseJson.v instantiates it with an executable
   model over Base/Json.v + Base/JsonParse.v.  No proofs here. *)
From RipV Require Import Base.Prelude Base.Utf8 Base.Json.

(* char::is_whitespace (Unicode White_Space) — what str::trim / trim_start use *)
Definition is_ws (c : N) : bool :=
  ((9 <=? c) && (c <=? 13)) || (c =? 32) || (c =? 133) || (c =? 160) || (c =? 5760)
  || ((8192 <=? c) && (c <=? 8202)) || (c =? 8232) || (c =? 8233) || (c =? 8239)
  || (c =? 8287) || (c =? 12288).

Fixpoint drop_while (f : N -> bool) (l : str) : str :=
  match l with [] => [] | c :: r => if f c then drop_while f r else l end.
Definition trim_start (s : str) : str := drop_while is_ws s.
Definition trim (s : str) : str := rev (trim_start (rev (trim_start s))).
Definition trim_end_cr (s : str) : str := rev (drop_while (fun c => c =? 13) (rev s)).

Fixpoint strip_prefix (p l : str) : option str :=
  match p with
  | [] => Some l
  | a :: p' => match l with [] => None | b :: l' => if a =? b then strip_prefix p' l' else None end
  end.

Definition S_EVENT : str := [101; 118; 101; 110; 116; 58].     (* "event:" *)
Definition S_DATA : str := [100; 97; 116; 97; 58].             (* "data:" *)
Definition S_DONE : str := [91; 68; 79; 78; 69; 93].           (* "[DONE]" *)
Definition NL : N := 10.

Fixpoint join_nl (l : list str) : str :=
  match l with
  | [] => []
  | x :: r => match r with [] => x | _ => x ++ NL :: join_nl r end
  end.

(* buffer.split('\n') with the pending tail: complete lines, and what follows the last '\n' *)
Fixpoint split_lines (cur : str) (l : str) : list str * str :=
  match l with
  | [] => ([], cur)
  | c :: r => if c =? NL then let '(ls, t) := split_lines [] r in (cur :: ls, t)
              else split_lines (cur ++ [c]) r
  end.

(* ---------- parsed events ---------- *)
Inductive cls :=
| CInvalid (errs : list str)                          (* kept as text: ParsedEvent::invalid_json(raw, err, event) *)
| CEvent (data : json) (errs rerrs : list str) (delta : option str).
                                                      (* ParsedEvent::event: data, errors, response_errors; the text
                                                         delta EventFrameMapper derives from data *)

Record pev := { pe_kind : N;                          (* 0 Done, 1 InvalidJson, 2 Event *)
                pe_event : option str; pe_raw : str;
                pe_data : option json; pe_err : list str; pe_rerr : list str; pe_delta : option str }.

Inductive frame :=
| FProv (seq status : N) (ev : option str) (raw : option str) (data : option json) (err rerr : list str)
| FDelta (seq : N) (delta : str).

Definition fseq (f : frame) : N := match f with FProv s _ _ _ _ _ _ => s | FDelta s _ => s end.

Record dstate := { d_buf : str; d_event : option str; d_data : list str }.
Definition dinit : dstate := {| d_buf := []; d_event := None; d_data := [] |}.

(* which of the two S11 repairs are in force: the model is faithful to the code for the
   corresponding flag value (both true = the code after the `fix:` commits) *)
Record flags := { fx_drain0 : bool; fx_cut : bool }.
Definition FIXED : flags := {| fx_drain0 := true; fx_cut := true |}.
Definition UNFIXED : flags := {| fx_drain0 := false; fx_cut := false |}.

Section WithClassify.
Variable classify : option str -> str -> cls.
Variable fl : flags.
Variable off : N.            (* seq_offset = *seq when the pipe is created *)

(* SseDecoder::parse_event *)
Definition parse_event (ev : option str) (raw : str) : pev :=
  if lN_eqb raw S_DONE
  then {| pe_kind := 0; pe_event := None; pe_raw := raw; pe_data := None; pe_err := []; pe_rerr := []; pe_delta := None |}
  else match classify ev raw with
       | CInvalid e => {| pe_kind := 1; pe_event := ev; pe_raw := raw; pe_data := None; pe_err := e; pe_rerr := []; pe_delta := None |}
       | CEvent d e r dl => {| pe_kind := 2; pe_event := ev; pe_raw := raw; pe_data := Some d; pe_err := e; pe_rerr := r; pe_delta := dl |}
       end.

(* one complete line (lib.rs:338-363); state = (current_event, current_data) *)
Definition lstate := (option str * list str)%type.
Definition line_step (s : lstate) (line0 : str) : lstate * list pev :=
  let line := trim_end_cr line0 in
  match strip_prefix S_EVENT line with
  | Some rest => let v := trim rest in ((match v with [] => None | _ => Some v end, snd s), [])
  | None =>
    match strip_prefix S_DATA line with
    | Some rest => ((fst s, snd s ++ [trim_start rest]), [])
    | None =>
      match line with
      | [] => match snd s with
              | [] => (s, [])                       (* current_event is NOT reset here *)
              | _ => ((None, []), [parse_event (fst s) (join_nl (snd s))])
              end
      | _ => (s, [])                                (* comment or unknown field *)
      end
    end
  end.

Fixpoint fold_lines (s : lstate) (ls : list str) : lstate * list pev :=
  match ls with
  | [] => (s, [])
  | l :: r => let '(s1, e1) := line_step s l in
              let '(s2, e2) := fold_lines s1 r in (s2, e1 ++ e2)
  end.

(* SseDecoder::push *)
Definition dec_push (d : dstate) (chunk : str) : dstate * list pev :=
  let '(ls, t) := split_lines [] (d_buf d ++ chunk) in
  let '(s, evs) := fold_lines (d_event d, d_data d) ls in
  ({| d_buf := t; d_event := fst s; d_data := snd s |}, evs).

(* SseDecoder::finish *)
Definition dec_finish (d : dstate) : dstate * list pev :=
  match d_buf d with
  | [] => (d, [])
  | b => dec_push {| d_buf := []; d_event := d_event d; d_data := d_data d |} (b ++ [NL])
  end.

(* EventFrameMapper::map, with `frame.seq += seq_offset` applied *)
Definition prov_frame (s : N) (e : pev) : frame :=
  if pe_kind e =? 2 then FProv s 2 (pe_event e) None (pe_data e) (pe_err e) (pe_rerr e)
  else FProv s (pe_kind e) (pe_event e) (Some (pe_raw e)) None (pe_err e) (pe_rerr e).
Definition ev_frames (s : N) (e : pev) : list frame :=
  match pe_delta e with
  | Some dl => [prov_frame s e; FDelta (s + 1) dl]
  | None => [prov_frame s e]
  end.
Definition nframes1 (e : pev) : N := match pe_delta e with Some _ => 2 | None => 1 end.

Record pipe := { p_dec : dstate; p_mseq : N (* mapper.seq *); p_out : list frame (* sink *) }.
Definition pipe_new : pipe := {| p_dec := dinit; p_mseq := 0; p_out := [] |}.

Definition emit_ev (p : pipe) (e : pev) : pipe :=
  {| p_dec := p_dec p; p_mseq := p_mseq p + nframes1 e; p_out := p_out p ++ ev_frames (off + p_mseq p) e |}.
Definition emit_evs (p : pipe) (evs : list pev) : pipe := fold_left emit_ev evs p.

Definition is_done (e : pev) : bool := pe_kind e =? 0.
Fixpoint upto_done (l : list pev) : list pev :=
  match l with [] => [] | e :: r => if is_done e then [e] else e :: upto_done r end.

Definition with_dec (p : pipe) (d : dstate) : pipe := {| p_dec := d; p_mseq := p_mseq p; p_out := p_out p |}.

(* push_sse_str (session.rs:387-411): returns saw_done *)
Definition push_sse_str (p : pipe) (chunk : str) : pipe * bool :=
  let '(d, parsed) := dec_push (p_dec p) chunk in
  (emit_evs (with_dec p d) (if fx_cut fl then upto_done parsed else parsed), existsb is_done parsed).

(* pipe.finish (session.rs:468-493) *)
Definition pipe_finish (p : pipe) : pipe * bool :=
  let '(d, parsed) := dec_finish (p_dec p) in
  (emit_evs (with_dec p d) (if fx_cut fl then upto_done parsed else parsed), existsb is_done parsed).

(* the loop of push_bytes (session.rs:413-466) on the carry-over buffer *)
Fixpoint pb_loop (fuel : nat) (buf : list N) (p : pipe) : list N * pipe * bool :=
  match fuel with
  | O => (buf, p, false)
  | S f =>
    match from_utf8 buf with
    | UOk text => let '(p1, d1) := push_sse_str p text in ([], p1, d1)
    | UErr text valid rest elen =>
      match valid with
      | O =>
        match elen with
        | None => (buf, p, false)
        | Some k =>
          let buf' := if fx_drain0 fl then skipn (Nat.min k (length buf)) buf else tl buf in
          let '(p1, d1) := push_sse_str p [FFFD] in
          if d1 then ([], p1, true) else pb_loop f buf' p1
        end
      | S _ =>
        let '(p1, d1) := push_sse_str p text in
        if d1 then ([], p1, true)
        else match elen with
             | None => (rest, p1, false)
             | Some k =>
               let rest' := skipn (Nat.min k (length rest)) rest in
               let '(p2, d2) := push_sse_str p1 [FFFD] in
               if d2 then ([], p2, true) else pb_loop f rest' p2
             end
      end
    end
  end.
Definition push_bytes (buf : list N) (p : pipe) (bytes : list N) : list N * pipe * bool :=
  let b := buf ++ bytes in pb_loop (S (length b)) b p.

(* the reader loop of stream_openresponses_request (session.rs:1543-1556) *)
Fixpoint run_chunks (buf : list N) (p : pipe) (cs : list (list N)) : list N * pipe * bool :=
  match cs with
  | [] => (buf, p, false)
  | c :: r => let '(buf1, p1, d1) := push_bytes buf p c in
              if d1 then (buf1, p1, true) else run_chunks buf1 p1 r
  end.

(* after the chunks: `[DONE]` seen => nothing more; a transport error (digest terr) => the error frame
   at seq = *self.seq = off + mapper.seq; else pipe.finish() *)
Definition transport_error_frame (p : pipe) (h : str) : frame := FProv (off + p_mseq p) 2 None None None [h] [].
Definition run_pipe (cs : list (list N)) (terr : option str) : list frame * N :=
  let '(_, p, d) := run_chunks [] pipe_new cs in
  if d then (p_out p, off + p_mseq p)
  else match terr with
       | Some h => (p_out p ++ [transport_error_frame p h], off + p_mseq p + 1)
       | None => let '(p1, _) := pipe_finish p in (p_out p1, off + p_mseq p1)
       end.
Definition frames_of (cs : list (list N)) : list frame := fst (run_pipe cs None).

(* library level only (no bytes, no cut): SseDecoder pushes + finish, mapper over every event *)
Fixpoint dec_pushes (d : dstate) (cs : list str) : dstate * list pev :=
  match cs with
  | [] => (d, [])
  | c :: r => let '(d1, e1) := dec_push d c in let '(d2, e2) := dec_pushes d1 r in (d2, e1 ++ e2)
  end.
Definition run_dec (cs : list str) : list pev :=
  let '(d, e) := dec_pushes dinit cs in e ++ snd (dec_finish d).

(* ---------- the chunking-free specification ---------- *)
(* every line of the whole text; an unterminated non-empty last line counts (finish()) *)
Definition all_lines (text : str) : list str :=
  let '(ls, t) := split_lines [] text in match t with [] => ls | _ => ls ++ [t] end.
(* the server-sent events of a text: fold of the field rules over its lines *)
Definition events_spec (text : str) : list pev := snd (fold_lines (None, []) (all_lines text)).
(* frames numbered from s *)
Fixpoint frames_from (s : N) (evs : list pev) : list frame :=
  match evs with [] => [] | e :: r => ev_frames s e ++ frames_from (s + nframes1 e) r end.
Definition frames_whole (body : list N) : list frame :=
  frames_from off (upto_done (events_spec (lossy_text body))).

End WithClassify.

(* derived output text = concatenation of the delta frames *)
Fixpoint output_text (fs : list frame) : str :=
  match fs with [] => [] | FDelta _ d :: r => d ++ output_text r | _ :: r => output_text r end.
Definition is_prov (f : frame) : bool := match f with FProv _ _ _ _ _ _ _ => true | _ => false end.

(* ---------- u64 arithmetic of the seq numbers ---------- *)
(* EventFrameMapper::emit `self.seq += 1`, push_sse_str / finish `frame.seq += self.seq_offset` and
   `*self.seq += frame_count` are u64 additions: a release build wraps modulo 2^64, a build with overflow
   checks (the harness build) panics.  All three stay below 2^64 iff seq_offset + number of frames does
   (the mapper-local seq starts at 0 and never exceeds the number of frames). *)
Definition TWO64 : N := 18446744073709551616.
Definition wrap_frame (f : frame) : frame :=
  match f with
  | FProv s st ev raw d e r => FProv (s mod TWO64) st ev raw d e r
  | FDelta s d => FDelta (s mod TWO64) d
  end.
(* what a release build produces: frames and final *seq *)
Definition wrap_run (r : list frame * N) : list frame * N := (map wrap_frame (fst r), snd r mod TWO64).
(* a build with overflow checks panics iff the final *seq would not fit *)
Definition run_overflows (r : list frame * N) : bool := TWO64 <=? snd r.
