(* C01 — a creating call whose STORE side write fails (crates/ripd/src/continuities.rs create_continuity_locked):
   the new thread's `continuity_created` frame (fixed seq 0) is appended to the truth log, the sidecar line is written,
   the frame is published, the in-memory index gets the thread (and, for ensure_default, the workspace default) - and THEN
   `save_index(..)?` writes continuities/index.json.  When that save fails the call answers Err: the frame is in the log,
   the index file is what it was, the thread's counter was never set (`next_seq.insert(id, 1)` is behind the `?`), the seq
   mutex is released.  Whoever retries must find the thread in the log (or in the in-memory index) - ensure_default does:
   this is log02c's `ensure` (Model/C02Decide.v), imported unchanged.  A retry that creates the SAME id again writes a
   second seq-0 frame on the thread's stream (the seeded change C01-10).
   Executable definitions only; proofs in Proofs/SeqCreateProofs.v. *)
From RipV Require Import Base.Prelude Model.Frames Model.Log Model.ContStore Model.C02Decide.

(* create_continuity (lock + create_continuity_locked) cut at the failing `save_index(..)?` *)
Definition create_save_failed (ar : list N) : list mstep :=
  [MLock; MAlloc; MLogAppendFixed 0 EContinuityCreated ar; MSidecar; MBcast; MIndexInsert; MUnlock].

(* any creating call cut at its failing `save_index(..)?`: everything up to and including the in-memory insert ran, then the
   `?` returns and the guard is dropped.  fail_save (create_prog ar) = create_save_failed ar; branch / handoff likewise (their
   lineage frame is never written).  Well-formed programs of Model/ContStore.v (the phase automaton admits `unlock with the
   child's counter never recorded` since this round), so c01_valid_all_schedules / c01_restart quantify over histories with
   failed index saves at any creating call, interleaved with anything. *)
Fixpoint fail_save (prog : list mstep) : list mstep :=
  match prog with
  | [] => []
  | MIndexInsert :: _ => [MIndexInsert; MUnlock]
  | m :: r => m :: fail_save r
  end.

(* the in-memory index moves, continuities/index.json does not *)
Definition mem_only (d : dstate) (st : state) (ix : index) : dstate :=
  {| d_st := st; d_ws := d_ws d; d_file := d_file d; d_mem := ix |}.

(* ensure_default while index.json cannot be written (every save_index of the call fails): the in-memory index answers
   when it knows the workspace; else the log is scanned - a thread found there is backfilled (`let _ = save_index(..)`:
   best effort) and answered; else a thread is created: frame logged, in-memory index updated, save fails => Err *)
Definition ensure_sf (d : dstate) : dstate * option N :=
  let ws := d_ws d in
  let st := d_st d in
  match ws_lookup (ix_ws (d_mem d)) ws with
  | Some c => (d, Some c)
  | None =>
    if validate (s_log st) then
      match find_default ws (s_log st) with
      | Some c => (mem_only d st {| ix_ws := (ws, c) :: ix_ws (d_mem d); ix_ids := ix_ids (d_mem d) |}, Some c)
      | None =>
        let st' := exec (create_save_failed [ws]) st in
        match new_frames (s_log st) (s_log st') with
        | f :: _ => (mem_only d st' {| ix_ws := (ws, sid f) :: ix_ws (d_mem d); ix_ids := sid f :: ix_ids (d_mem d) |}, None)
        | [] => (with_st d st', None)
        end
      end
    else (d, None)
  end.

(* branch / handoff of thread c whose child's creation cannot save the index: the child's seq-0 frame is logged, the
   lineage frame (seq 1) is never written, the child is known to the in-memory index *)
Definition lineage_sf (d : dstate) (c : N) : dstate :=
  let st := d_st d in
  let st' := exec ([MTarget c; MRead] ++ create_save_failed [d_ws d]) st in
  match new_frames (s_log st) (s_log st') with
  | f :: _ => mem_only d st' {| ix_ws := ix_ws (d_mem d); ix_ids := sid f :: ix_ids (d_mem d) |}
  | [] => with_st d st'
  end.

(* the seeded retry: create_continuity(workspace, Some(SAME id), ..) again - a second `continuity_created` frame with the
   literal seq 0 on the stream of thread c *)
Definition retry_same_id (st : state) (c ws : N) : state :=
  set_store st (s_log st ++ [mk_frame st c 0 EContinuityCreated [ws]]) (s_side st) (s_next st) (s_index st)
            (s_fresh st + 1) (s_mu st).

(* T1 (tools/gen/append_skeleton.py gen_create_callers): every function that calls create_continuity /
   create_continuity_locked has exactly one call site and none inside a loop: one invocation creates at most once.  At least
   the three public creating calls (ensure_default, branch, handoff) must have been found. *)
Definition create_calls_ok (l : list (N * bool)) : bool :=
  (3 <=? nlen l) && forallb (fun x => (fst x =? 1) && negb (snd x)) l.

(* ---------- correspondence (harness/src/bin/c01/sidewrites.rs): a sequential history on one authority ---------- *)
Inductive swcall :=
| SwEnsure (save_ok : bool)                   (* ensure_default; false: index.json cannot be written during the call *)
| SwLineage (t : etype) (th : nat) (how : N)  (* branch / handoff of the th-th thread: 1 completed, 2 the child's index save failed, 0 refused before anything was written *)
| SwMsg (th : nat)
| SwRestart
| SwDropIndex.

Definition do_sw (d : dstate) (c : swcall) : dstate * N :=
  match c with
  | SwEnsure ok =>
    let '(d', a) := (if ok then ensure false d else ensure_sf d) in
    (d', answer_code (d_ws d) (s_log (d_st d')) a)
  | SwLineage t th how =>
    let c := nth_thread (s_log (d_st d)) th in
    (if how =? 1 then lineage d t c true else if how =? 2 then lineage_sf d c else lineage d t c false,
     if how =? 1 then 1 else 2)
  | SwMsg th =>
    (with_st d (exec (MTarget (nth_thread (s_log (d_st d)) th) :: locked_append EContinuityMessageAppended []) (d_st d)), 9)
  | SwRestart => (reopen d (d_ws d), 9)
  | SwDropIndex => ({| d_st := d_st d; d_ws := d_ws d; d_file := IAbsent; d_mem := d_mem d |}, 9)
  end.

Fixpoint run_sw (d : dstate) (cs : list swcall) : list N * dstate :=
  match cs with
  | [] => ([], d)
  | c :: r => let '(d', code) := do_sw d c in
              let '(ns, fin) := run_sw d' r in (nlen (s_log (d_st d')) :: code :: ns, fin)
  end.

Record case_sw := { sw_calls : list swcall; sw_expect : list N }.
Definition model_obs_sw (c : case_sw) : list N :=
  let '(ns, fin) := run_sw dstate0 (sw_calls c) in
  ns ++ (if validate (s_log (d_st fin)) then 1 else 0) :: canon_log (s_log (d_st fin)).
Definition check_case_sw (c : case_sw) : bool := lN_eqb (model_obs_sw c) (sw_expect c).
