(* C04 — the per-thread SEEK INDEX and the full-sidecar window read that goes through it.
   Executable model (no proofs here; Proofs/SeekIndexProofs.v) of

     continuity_seek_index.rs   SeqSeekIndexEntryV1 (seq, offset), one entry per SEEK_INDEX_STRIDE_EVENTS_V1 frames
                                rebuild_seq_index_from_sidecar_v1 / the append path     seek_index
                                best_offset_for_seq (binary_search_by: the last entry    best_entry / best_offset
                                with seq <= target, offset 0 when there is none)
     continuity_stream_cache.rs boundary_pos_for_seq_v1                                  boundary_pos
                                window_recent_messages_v1_from_cut_v1: the header-only   start_seq
                                backward scan for the limit-th message at or below the
                                cut, then the forward read from the seek point           collect
                                window_recent_messages_v1_from_seq                       seek_window

   This is the producer `window` of Model/CacheCompile.v (after_loop) when the messages+runs sidecar cannot be used and
   the full sidecar is intact.  Offsets are in LINES: the byte offsets of the code are the line starts, an order-isomorphic
   image; the reads only ever seek to a recorded line start and read whole lines.  The doubling of the backward scan's byte
   budget is not modelled (the scan is taken to its fixpoint: limit-th message found, or start of the file; the code's
   caps are 256 MiB / 200 000 frames).  `look` is the seek-index lookup, a parameter so that the window read can be
   stated for the lookup of the code and for the off-by-one lookup of seed C04-11. *)
From RipV Require Import Base.Prelude Model.Compile.

Definition entry := (N * N)%type.          (* (seq, offset) *)

(* best_offset_for_seq: Ok(idx) => entries[idx]; Err(0) => offset 0; Err(idx) => entries[idx-1].  On entries sorted by
   seq (load_seq_index_v1 refuses anything else) the binary search returns what this left-to-right scan returns: the
   last entry with seq <= target. *)
Fixpoint best_entry (es : list entry) (t : N) (best : option entry) : option entry :=
  match es with
  | [] => best
  | e :: r => if fst e <=? t then best_entry r t (Some e) else best
  end.
Definition offset_of (o : option entry) : N := match o with Some e => snd e | None => 0 end.
Definition best_offset (es : list entry) (t : N) : N := offset_of (best_entry es t None).

(* the lookup of seed C04-11: entries.partition_point(|e| e.seq < target), get(idx).or(last): the FIRST entry with
   seq >= target — one entry too far whenever the target is not itself an entry and lies below the last one *)
Fixpoint first_ge (es : list entry) (t : N) : option entry :=
  match es with
  | [] => None
  | e :: r => if fst e <? t then first_ge r t else Some e
  end.
Definition best_offset_next (es : list entry) (t : N) : N :=
  match first_ge es t with
  | Some e => snd e
  | None => offset_of (last (map Some es) None)
  end.

(* the index a rebuild / the append path writes: one entry per frame whose seq is a multiple of the stride, at the
   frame's line start *)
Fixpoint index_from (stride pos : N) (l : log) : list entry :=
  match l with
  | [] => []
  | f :: r => (if fseq f mod stride =? 0 then [(fseq f, pos)] else []) ++ index_from stride (pos + 1) r
  end.
Definition seek_index (stride : N) (l : log) : list entry := index_from stride 0 l.

Fixpoint sorted_from (lo : N) (es : list entry) : bool :=   (* seqs strictly increasing, all >= lo *)
  match es with
  | [] => true
  | e :: r => (lo <=? fst e) && sorted_from (fst e + 1) r
  end.

Definition from_offset (o : N) (l : log) : log := skipn (N.to_nat o) l.

(* boundary_pos_for_seq_v1: from the seek point, the line start of the first frame with seq > from, else the file's length *)
Fixpoint lines_upto (from : N) (l : log) : N :=
  match l with
  | [] => 0
  | f :: r => if from <? fseq f then 0 else 1 + lines_upto from r
  end.
Definition boundary_pos (look : list entry -> N -> N) (es : list entry) (l : log) (from : N) : N :=
  let o := look es from in o + lines_upto from (from_offset o l).

(* the backward header scan below the boundary (newest first): the seq of the limit-th message at or below the cut, 0 when
   the start of the file is reached first *)
Fixpoint start_seq_rev (from : N) (rl : log) (need : nat) : N :=
  match rl with
  | [] => 0
  | f :: r =>
    if from <? fseq f then start_seq_rev from r need
    else if is_msg f then match need with
                          | S (S n) => start_seq_rev from r (S n)
                          | _ => fseq f
                          end
    else start_seq_rev from r need
  end.
Definition start_seq (l : log) (b from : N) (limit : nat) : N :=
  start_seq_rev from (rev (firstn (N.to_nat b) l)) limit.

(* the forward read from the seek point: stops at the boundary or at the first frame beyond the cut, skips frames in front of
   the window's first frame, keeps messages and run_ended frames *)
Fixpoint collect (pos b s from : N) (l : log) : log :=
  match l with
  | [] => []
  | f :: r =>
    if b <=? pos then []
    else if fseq f <? s then collect (pos + 1) b s from r
    else if from <? fseq f then []
    else (if mr_keep f then [f] else []) ++ collect (pos + 1) b s from r
  end.

Definition seek_window (look : list entry -> N -> N) (stride : N) (limit : nat) (l : log) (from : N) : log :=
  let es := seek_index stride l in
  let b := boundary_pos look es l from in
  let s := start_seq l b from limit in
  let o := look es s in
  collect o b s from (from_offset o l).

(* what the window must be: the messages and run_ended frames from the limit-th message at or below the cut (or the start
   of the thread) up to the cut — no index in sight *)
Definition window_spec (limit : nat) (l : log) (from : N) : log :=
  let s := start_seq_rev from (rev (upto from l)) limit in
  filter mr_keep (filter (fun f => (s <=? fseq f) && (fseq f <=? from)) l).

(* window_recent_messages_v1_from_message_id_full_sidecar on an intact full sidecar: the anchor's line through the message-id
   index (not modelled: the anchor is found), the cut by the forward scan from the anchor's line (the seq in front of the next
   message, else the head: Compile.cut_point), then the window read above.  This is the value of the parameter `window` of
   Model/CacheCompile.v input_fast / compile_fast when the messages+runs window does not answer. *)
Definition full_sidecar_window (look : list entry -> N -> N) (stride : N) (limit : nat) (l : log) (a : N) : option (log * N) :=
  match cut_point l a with
  | Some from => Some (seek_window look stride limit l from, from)
  | None => None
  end.

(* ------------------------------------------------------------------ small constants for the witnesses (stride 4) *)
Definition mk_msg (s : N) : frame := {| fseq := s; fb := BMsg |}.
Definition thread_of_msgs (n : nat) : log := map (fun i => mk_msg (N.of_nat i)) (seq 0 n).
Definition sw_thread : log := thread_of_msgs 11.            (* seqs 0..10: entries at 0, 4, 8 *)
