(* C11 — "... exactly one side-effects frame ..., listing the files it changed": what the frame of a
   mutating tool call lists, computed from the call.  Executable definitions only (lemmas:
   Proofs/SideEffectsProofs.v).

   The workspace is an `fs` of Base/Fs.v whose top directory [] is the workspace root (the listing
   without `.rip`).  The tools are the models the workspace properties already verify against the
   real crates: `apply_patch` = Model/Patch.v (Patch::parse + Workspace::apply_patch incl. undo log
   and revert; C12), `write` = Model/Checkpoint.v write_tool (run_write; C14), the auto checkpoint
   = Model/Checkpoint.v create (files_for_invocation + Workspace::create_checkpoint; C14).  New here:
     * which list each tool REPORTS (`changed_files` of apply_patch: every path an operation names,
       both ends of a move; `path` of write; nothing for a shell command),
     * ToolRunner::run's artifacts (only an ended call that returned artifacts has any),
     * session.rs summarize_continuity_tool_side_effects: `changed_files` array, else `path`, else
       the files of the auto checkpoint; every entry through normalize_rel_path_string; sort; dedup.
   Restriction (stated, generated cases obey it): `write` reports normalize_rel_path(root, root.join(raw)),
   modelled as `raw` itself — exact for arguments without `.` / empty segments. *)
From RipV Require Import Base.Prelude Base.Fs Model.Paths Model.Checkpoint Model.Patch.

Inductive call :=
| CWrite (raw : str) (mode : N) (data : bytes) (ext : str)   (* mode / ext as Model.Checkpoint.write_tool *)
| CPatch (input : list N)                                    (* the patch document *)
| CShell (after : fs).                                       (* bash / shell: whatever the command left behind *)

Definition is_shell (c : call) : bool := match c with CShell _ => true | _ => false end.

(* which source paths a move reports: the code as built pushes the updated path unconditionally and the
   move target in addition (MvBoth); MvTargetOnly is the variant "a moved file is reported where it can
   be found afterwards" *)
Inductive mvrep := MvBoth | MvTargetOnly.

Definition op_reported (m : mvrep) (o : op) : list (list N) :=
  match o with
  | Upd p (Some q) _ => match m with MvBoth => [p; q] | MvTargetOnly => [q] end
  | _ => op_paths o
  end.
Definition reported (m : mvrep) (ops : list op) : list (list N) :=
  sort_dedup (map normalize_rel (flat_map (op_reported m) ops)).

(* session.rs summarize_continuity_tool_side_effects, the affected_paths part *)
Definition norm_all (l : list str) : list str := sort_dedup (map normalize_rel l).
Definition summarize (art : option (list str)) (ck : option (list str)) : option (list str) :=
  option_map norm_all (match art with Some l => Some l | None => ck end).

(* the `files` of the auto checkpoint's checkpoint_created frame (None: refused before the store, or
   the store refused / failed — the tool runs all the same) *)
Definition ck_files (f : fs) (root : str) (raws : res (list str)) : option (list str) :=
  match raws with
  | Err _ => None
  | Ok rs => match create f root rs with Ok ck => Some (map fst ck) | Err _ => None end
  end.

Definition write_ok (f : fs) (c : call) : bool :=
  match c with
  | CWrite raw mode data ext =>
    match snd (write_tool expected_tool_steps f raw ext mode data) with None => true | Some _ => false end
  | _ => true
  end.

(* one mutating tool call of a run attached to a thread: the workspace afterwards and the
   affected_paths of its continuity_tool_side_effects frame *)
Definition run_call_gen (m : mvrep) (root : str) (f : fs) (c : call) : fs * option (list str) :=
  match c with
  | CWrite raw mode data ext =>
    let ck := ck_files f root (match arg_interp expected_auto_steps raw with Ok a => Ok [a] | Err e => Err e end) in
    let '(f', er) := write_tool expected_tool_steps f raw ext mode data in
    (f', summarize (match er with None => Some [raw] | Some _ => None end) ck)
  | CPatch input =>
    let ck := ck_files f root (match parse_patch input with Some ops => Ok (affected_paths ops) | None => Err 0 end) in
    match apply_patch true [] f input with
    | Applied f' _ =>
      (f', summarize (match parse_patch input with Some ops => Some (reported m ops) | None => Some [] end) ck)
    | Failed f' _ => (f', summarize None ck)
    end
  | CShell after => (after, None)
  end.

Definition run_call := run_call_gen MvBoth.

(* ---------- tie T1 (tools/gen/sidefx.py -> Gen/SideFx.v) ----------
   What the source does, as the extractor reads it: which paths each arm of Workspace::apply_patch pushes to
   `changed_files` (r_upd_moved_src: the updated path of an operation that also moves, r_upd_moved_dst: the move
   target), the sort + dedup before the result, the artifacts of the two tools, and the shape of
   summarize_continuity_tool_side_effects (changed_files array first, else the path string, the auto checkpoint's
   files only when neither is there, sort + dedup, nothing cut from the list). *)
Record report_cfg := {
  r_add : bool; r_del : bool; r_upd_plain : bool; r_upd_moved_src : bool; r_upd_moved_dst : bool; r_lib_sorted : bool;
  r_tool_patch : bool; r_tool_write : bool;
  r_sum_changed : bool; r_sum_path : bool; r_sum_ck_only_when_none : bool; r_sum_sorted : bool }.

Definition report_wf (c : report_cfg) : bool :=
  r_add c && r_del c && r_upd_plain c && r_upd_moved_src c && r_upd_moved_dst c && r_lib_sorted c
  && r_tool_patch c && r_tool_write c
  && r_sum_changed c && r_sum_path c && r_sum_ck_only_when_none c && r_sum_sorted c.

Definition pushed_by (c : report_cfg) (o : op) : list (list N) :=
  match o with
  | Add p _ => if r_add c then [p] else []
  | Del p => if r_del c then [p] else []
  | Upd p None _ => if r_upd_plain c then [p] else []
  | Upd p (Some q) _ => (if r_upd_moved_src c then [p] else []) ++ (if r_upd_moved_dst c then [q] else [])
  end.
Definition reported_by (c : report_cfg) (ops : list op) : list (list N) :=
  let l := map normalize_rel (flat_map (pushed_by c) ops) in
  if r_lib_sorted c then sort_dedup l else l.

(* ---------- correspondence case: one mutating call of a thread-attached run ---------- *)
Record fcase := {
  fc_root : str;                       (* the workspace root as the engine was given it *)
  fc_fs : fs;                          (* workspace listing when the call got the lock *)
  fc_call : call;
  fc_frame : option (list str);        (* affected_paths of the call's side-effects frame *)
  fc_after : fs }.                     (* workspace listing when the tool had returned *)

Definition frame_eqb : option (list str) -> option (list str) -> bool := option_eqb (list_eqb lN_eqb).

Definition check_fx (c : fcase) : bool :=
  let '(f', fr) := run_call (fc_root c) (fc_fs c) (fc_call c) in
  is_absolute (fc_root c) && wf_fsb (fc_fs c) && sane_b (fc_fs c) && wf_fsb (fc_after c)
  && frame_eqb fr (fc_frame c) && same_listing f' (fc_after c).

Definition fx_obs (c : fcase) : list N :=
  let '(f', fr) := run_call (fc_root c) (fc_fs c) (fc_call c) in
  (match fr with None => [0] | Some l => 1 :: nlen l :: List.concat (map (fun p => nlen p :: p) l) end)
  ++ List.concat (map enc_node f').
