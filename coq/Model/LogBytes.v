(* Byte-level model of EventLog::append (crates/rip-log/src/lib.rs): a std::io::BufWriter<File> of
   capacity `cap` (8192 in std) in front of a file opened O_APPEND.  What matters for C02 is which
   bytes are IN THE FILE after every write(2) the writer issues: a reader (replays are not serialised
   with the writer), a second handle on the same file, or the death of the process can fall between
   any two of them.  No proofs here (Proofs/LogBytesProofs.v). *)
From RipV Require Import Base.Prelude Model.Frames Model.Log.

Definition blen (b : bytes) : N := N.of_nat (length b).

(* std's default BufWriter capacity *)
Definition bufwriter_capacity : N := 8192.

Record bw := { bw_file : bytes;      (* bytes in events.jsonl *)
               bw_buf : bytes }.     (* bytes held by the BufWriter *)

Definition bw_at (file : bytes) : bw := {| bw_file := file; bw_buf := [] |}.

Inductive wop :=
| WWrite (d : bytes)      (* writer.write_all(d) *)
| WFlush.                 (* writer.flush() *)

(* flush_buf: the buffered bytes go to the file with one write(2) *)
Definition flush_buf (s : bw) : bw := {| bw_file := bw_file s ++ bw_buf s; bw_buf := [] |}.

(* BufWriter::write_all(d) (library/std/src/io/buffered/bufwriter.rs, write_all / write_all_cold):
     if d.len() > spare_capacity { flush_buf()? }                 -- one write(2) of the buffer
     if d.len() >= capacity { inner.write_all(d) }                -- bypass: one write(2) of d
     else { buffer.extend(d) }
   BufWriter::flush(): flush_buf()  (File::flush is a no-op).
   Result: the file content after each write(2) issued, oldest first, and the writer afterwards.
   (A flush of an empty buffer is listed too: same content as before, harmless.) *)
Definition bw_op (cap : N) (s : bw) (o : wop) : list bytes * bw :=
  match o with
  | WFlush => ([bw_file (flush_buf s)], flush_buf s)
  | WWrite d =>
    let '(w1, s1) := if cap <? blen (bw_buf s) + blen d
                     then ([bw_file (flush_buf s)], flush_buf s) else ([], s) in
    if cap <=? blen d
    then (w1 ++ [bw_file s1 ++ d], {| bw_file := bw_file s1 ++ d; bw_buf := bw_buf s1 |})
    else (w1, {| bw_file := bw_file s1; bw_buf := bw_buf s1 ++ d |})
  end.

Fixpoint bw_run (cap : N) (s : bw) (ops : list wop) : list bytes * bw :=
  match ops with
  | [] => ([], s)
  | o :: r => let '(w1, s1) := bw_op cap s o in
              let '(w2, s2) := bw_run cap s1 r in (w1 ++ w2, s2)
  end.

(* every content the file has while `ops` run (after each write(2)) / the writer afterwards *)
Definition bw_trace (cap : N) (s : bw) (ops : list wop) : list bytes := fst (bw_run cap s ops).
Definition bw_final (cap : N) (s : bw) (ops : list wop) : bw := snd (bw_run cap s ops).

(* ---------- the shapes EventLog::append has had ---------- *)
(* as it is (bd2ee56): `line = to_string(event); line.push('\n'); write_all(line); flush()` *)
Definition append_single (enc : frame -> bytes) (f : frame) : list wop :=
  [WWrite (enc f ++ [10]); WFlush].
(* as it was: `write_all(line); write_all(b"\n"); flush()` *)
Definition append_two_writes (enc : frame -> bytes) (f : frame) : list wop :=
  [WWrite (enc f); WWrite [10]; WFlush].
(* `serde_json::to_writer(&mut writer, event); write_all(b"\n"); flush()`: the serializer hands the
   frame to the writer piece by piece *)
Definition append_streamed (pieces : list bytes) : list wop :=
  map WWrite pieces ++ [WWrite [10]; WFlush].

Definition appends_single (enc : frame -> bytes) (fs : list frame) : list wop :=
  concat (map (append_single enc) fs).

(* ---------- what the T1 extractor reads off the body of EventLog::append ---------- *)
Inductive ashape :=
| ALineNl      (* write_all of the String made by to_string(event) + push('\n') *)
| ABody        (* write_all of the frame without terminator *)
| ANl          (* write_all(b"\n") *)
| AStream      (* serde_json::to_writer(&mut writer, ..) *)
| AFlush       (* flush() *)
| AOther.      (* any other writer call the extractor met *)

Definition ashape_eqb (a b : ashape) : bool :=
  match a, b with
  | ALineNl, ALineNl | ABody, ABody | ANl, ANl | AStream, AStream | AFlush, AFlush | AOther, AOther => true
  | _, _ => false
  end.
Fixpoint ashapes_eqb (a b : list ashape) : bool :=
  match a, b with
  | [], [] => true
  | x :: r, y :: s => ashape_eqb x y && ashapes_eqb r s
  | _, _ => false
  end.
(* the obligation on the generated shape: ONE write of frame+LF, then the flush *)
Definition shape_single_write (sh : list ashape) : bool := ashapes_eqb sh [ALineNl; AFlush].

(* the writer program of a shape (`pieces`: how a serializer would cut the frame; AOther: unknown) *)
Definition prog_of_shape (enc : frame -> bytes) (pieces : frame -> list bytes) (f : frame) (sh : list ashape)
  : list wop :=
  concat (map (fun a => match a with
                        | ALineNl => [WWrite (enc f ++ [10])]
                        | ABody => [WWrite (enc f)]
                        | ANl => [WWrite [10]]
                        | AStream => map WWrite (pieces f)
                        | AFlush => [WFlush]
                        | AOther => []
                        end) sh).

(* the unterminated rest of a file content *)
Definition partial_tail (b : bytes) : bytes := snd (split_lines b).
