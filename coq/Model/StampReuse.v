(* C14 — a create_checkpoint that does not read a file whose STAMP (what fs::metadata reports: length, modification
   time) equals the one recorded by the previous checkpoint of the session and reuses that checkpoint's stored bytes
   (seeded change C14-8).  Not what /repo does (Model/Checkpoint.v `create` reads every file; T1 gen_store_ok demands
   `let bytes = fs::read(&source)?; let hash = hash_bytes(&bytes); fs::write(&dest, &bytes)?`): kept as a variant whose
   failure is a theorem.  `mt` = the modification time the file system reports for a path at the moment of the call. *)
From RipV Require Import Base.Prelude Base.Fs Model.Paths Model.Checkpoint.

Definition stamp := (N * N)%type.
Definition prev_entry := (str * bytes * stamp)%type.   (* recorded name, stored bytes, stamp at that time *)
Definition stamp_of (mt : str -> N) (rel : str) (b : bytes) : stamp := (nlen b, mt rel).
Definition stamp_eqb (a b : stamp) : bool := (fst a =? fst b) && (snd a =? snd b).

Fixpoint reuse (prev : list prev_entry) (rel : str) (st : stamp) : option bytes :=
  match prev with
  | [] => None
  | (r, b, s) :: t => if lN_eqb r rel && stamp_eqb s st then Some b else reuse t rel st
  end.

Definition save_one_reuse (mt : str -> N) (prev : list prev_entry) (f : fs) (rel : str) : res entry :=
  match save_one f rel with
  | Ok (r, Some b) => match reuse prev r (stamp_of mt r b) with Some b0 => Ok (r, Some b0) | None => Ok (r, Some b) end
  | x => x
  end.

Definition create_reuse (mt : str -> N) (prev : list prev_entry) (f : fs) (root : str) (raws : list str) : res (list entry) :=
  match map_res (to_relative root) raws with
  | Err e => Err e
  | Ok rels => map_res (save_one_reuse mt prev f) rels
  end.

(* what a checkpoint leaves for the next one *)
Definition recorded (mt : str -> N) (ck : list entry) : list prev_entry :=
  flat_map (fun e => match snd e with Some b => [(fst e, b, stamp_of mt (fst e) b)] | None => [] end) ck.
