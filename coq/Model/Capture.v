(* C17 — executable model of output capture:
     * String::from_utf8_lossy / str::from_utf8 as a byte automaton (bytes -> bytes of the lossy text),
     * truncate_utf8 (ripd tasks/logs.rs:198, rip-tools builtins/mod.rs:167 — same code twice),
     * TaskLogWriter::append (tasks/logs.rs:153),
     * read_artifact_range (tasks/logs.rs:243) = artifact_fetch (rip-tools builtins/artifact_fetch.rs:19),
     * pump_output_stream (tasks/pipes.rs:247): append every chunk, delta frame iff preview non-empty,
     * capture_stream (rip-tools builtins/shell.rs:155): preview buffer, spill hand-over, capped tail,
       id = H(stored bytes).
   No proofs here (Proofs/CaptureProofs.v). *)
From RipV Require Import Base.Prelude.
From RipV Require Export Model.TaskLifecycle.

Definition bytes := list N.

Definition take (n : N) (l : bytes) : bytes := firstn (N.to_nat n) l.
Definition drop (n : N) (l : bytes) : bytes := skipn (N.to_nat n) l.

(* ================= UTF-8 (core::str::validations / core::str::lossy::Utf8Chunks) ================= *)
Definition REPL : bytes := [239; 191; 189].        (* U+FFFD *)

Inductive ust :=
| UIdle
| UPend (acc : bytes) (need : N) (lo hi : N).  (* bytes of the character so far; `need` more bytes;
                                                  the next one must lie in [lo, hi] *)

Definition inr (lo hi b : N) : bool := (lo <=? b) && (b <=? hi).

(* a byte met in the idle state: (output, no-error?, next state) *)
Definition ustart (b : N) : bytes * bool * ust :=
  if b <? 128 then ([b], true, UIdle)
  else if inr 194 223 b then ([], true, UPend [b] 1 128 191)
  else if b =? 224 then ([], true, UPend [b] 2 160 191)
  else if inr 225 236 b then ([], true, UPend [b] 2 128 191)
  else if b =? 237 then ([], true, UPend [b] 2 128 159)
  else if inr 238 239 b then ([], true, UPend [b] 2 128 191)
  else if b =? 240 then ([], true, UPend [b] 3 144 191)
  else if inr 241 243 b then ([], true, UPend [b] 3 128 191)
  else if b =? 244 then ([], true, UPend [b] 3 128 143)
  else (REPL, false, UIdle).                       (* 0x80..0xC1, 0xF5..0xFF: width 0 *)

Definition ustep (st : ust) (b : N) : bytes * bool * ust :=
  match st with
  | UIdle => ustart b
  | UPend acc need lo hi =>
    if inr lo hi b then
      (if need =? 1 then (acc ++ [b], true, UIdle) else ([], true, UPend (acc ++ [b]) (need - 1) 128 191))
    else (* the maximal valid prefix becomes one U+FFFD; the offending byte is looked at afresh *)
      let '(o, _, st') := ustart b in (REPL ++ o, false, st')
  end.

(* (lossy output, input was valid UTF-8?) *)
Fixpoint urun (st : ust) (bs : bytes) : bytes * bool :=
  match bs with
  | [] => match st with UIdle => ([], true) | UPend _ _ _ _ => (REPL, false) end
  | b :: r =>
    let '(o, ok, st') := ustep st b in
    let '(o2, ok2) := urun st' r in (o ++ o2, ok && ok2)
  end.

Definition lossy (bs : bytes) : bytes := fst (urun UIdle bs).     (* String::from_utf8_lossy, as bytes *)
Definition utf8_ok (bs : bytes) : bool := snd (urun UIdle bs).   (* str::from_utf8(..).is_ok() *)

(* `while end > 0 && from_utf8(&bytes[..end]).is_err() { end -= 1 }` *)
Fixpoint trim_valid (e : nat) (bs : bytes) : nat :=
  match e with
  | O => O
  | S e' => if utf8_ok (firstn e bs) then e else trim_valid e' bs
  end.

(* (text as bytes, truncated, used bytes) *)
Definition truncate_utf8 (bs : bytes) (maxb : N) : bytes * bool * N :=
  if nlen bs <=? maxb then (lossy bs, false, nlen bs)
  else let e := trim_valid (N.to_nat maxb) bs in (lossy (firstn e bs), true, N.of_nat e).

(* the automaton's state after the bytes (outputs ignored) *)
Fixpoint ufinal (st : ust) (bs : bytes) : ust :=
  match bs with
  | [] => st
  | b :: r => let '(_, _, st') := ustep st b in ufinal st' r
  end.

(* incomplete_utf8_tail (fix of S12/S19; ripd tasks/logs.rs, rip-tools builtins/mod.rs): length of a
   trailing sequence that is valid so far but incomplete *)
Definition incomplete_tail (bs : bytes) : N :=
  match ufinal UIdle bs with UIdle => 0 | UPend acc _ _ _ => nlen acc end.

(* ================= TaskLogWriter ================= *)
Record lw := { lw_cap : N; lw_total : N; lw_nstored : N; lw_trunc : bool; lw_file : bytes }.
Record apinfo := { ap_off : N; ap_bytes : N; ap_total : N; ap_stored : N; ap_trunc : bool }.

Definition lw_new (cap : N) : lw :=
  {| lw_cap := cap; lw_total := 0; lw_nstored := 0; lw_trunc := false; lw_file := [] |}.

Definition lw_append (w : lw) (chunk : bytes) : lw * apinfo :=
  let off := lw_nstored w in
  let total := lw_total w + nlen chunk in
  let remaining := lw_cap w - lw_nstored w in
  let tk := N.min remaining (nlen chunk) in
  let stored := lw_nstored w + tk in
  let tr := lw_trunc w || (tk <? nlen chunk) in
  ({| lw_cap := lw_cap w; lw_total := total; lw_nstored := stored; lw_trunc := tr;
      lw_file := lw_file w ++ take tk chunk |},
   {| ap_off := off; ap_bytes := tk; ap_total := total; ap_stored := stored; ap_trunc := tr |}).

Fixpoint lw_run (w : lw) (chunks : list bytes) : lw * list apinfo :=
  match chunks with
  | [] => (w, [])
  | c :: r => let '(w1, i) := lw_append w c in let '(w2, is) := lw_run w1 r in (w2, i :: is)
  end.

(* ================= range reads ================= *)
Record page := { pg_content : bytes; pg_bytes : N; pg_total : N; pg_trunc : bool }.

(* the code before the repair of S12: one read of at most max_bytes from offset, decoded lossily *)
Definition read_range_unfixed (file : bytes) (offset maxb : N) : page :=
  let buf := take maxb (drop offset file) in
  let '(content, utr, used) := truncate_utf8 buf maxb in
  {| pg_content := content; pg_bytes := used; pg_total := nlen file;
     pg_trunc := utr || (offset + nlen buf <? nlen file) |}.

(* when more bytes follow, a page does not end inside a character (unless the whole page is one) *)
Definition trim_page (buf : bytes) (more : bool) : bytes :=
  if more then
    let t := incomplete_tail buf in
    if t <? nlen buf then take (nlen buf - t) buf else buf
  else buf.

Definition read_range (file : bytes) (offset maxb : N) : page :=
  let buf := take maxb (drop offset file) in
  let more := offset + nlen buf <? nlen file in
  let '(content, utr, used) := truncate_utf8 (trim_page buf more) maxb in
  {| pg_content := content; pg_bytes := used; pg_total := nlen file; pg_trunc := utr || more |}.

(* a client paging through the artifact: next offset = offset + reported bytes; stops at the first
   page that is not truncated or makes no progress; `fuel` bounds the walk *)
Fixpoint page_walk (rd : bytes -> N -> N -> page) (fuel : nat) (file : bytes) (offset maxb : N) : list page :=
  match fuel with
  | O => []
  | S f =>
    let p := rd file offset maxb in
    if pg_trunc p && (0 <? pg_bytes p) then p :: page_walk rd f file (offset + pg_bytes p) maxb
    else [p]
  end.

(* ================= pump_output_stream ================= *)
Definition OUTPUT_EVENT_MAX_BYTES : N := 8192.
Record dframe := { df_preview : bytes; df_info : apinfo }.

(* before the repair of S17: `if preview.is_empty() { continue; }` *)
Definition pump_step_unfixed (plimit : N) (st : lw * list dframe) (chunk : bytes) : lw * list dframe :=
  let '(w1, i) := lw_append (fst st) chunk in
  let '(pv, _, _) := truncate_utf8 chunk (N.min plimit OUTPUT_EVENT_MAX_BYTES) in
  match pv with
  | [] => (w1, snd st)
  | _ => (w1, snd st ++ [{| df_preview := pv; df_info := i |}])
  end.

Definition pump_unfixed (cap plimit : N) (chunks : list bytes) : lw * list dframe :=
  fold_left (pump_step_unfixed plimit) chunks (lw_new cap, []).

(* since the repair of S17 every appended chunk gets its frame (`if preview.is_empty() &&
   artifacts.is_none() { continue; }`; appends do not fail in the model).
   Before the repair of S20 every read was decoded on its own: *)
Definition pump_step_perchunk (plimit : N) (st : lw * list dframe) (chunk : bytes) : lw * list dframe :=
  let '(w1, i) := lw_append (fst st) chunk in
  let '(pv, _, _) := truncate_utf8 chunk (N.min plimit OUTPUT_EVENT_MAX_BYTES) in
  (w1, snd st ++ [{| df_preview := pv; df_info := i |}]).

Definition pump_perchunk (cap plimit : N) (chunks : list bytes) : lw * list dframe :=
  fold_left (pump_step_perchunk plimit) chunks (lw_new cap, []).

(* S20 repaired: the bytes of a character the previous read left incomplete are carried over and shown,
   whole, with the next read: (text to decode, new carry) *)
Definition pump_text (carry chunk : bytes) : bytes * bytes :=
  let text := carry ++ chunk in
  let keep := nlen text - incomplete_tail text in
  (take keep text, drop keep text).

Record pst := { ps_w : lw; ps_carry : bytes; ps_frames : list dframe }.

Definition pump_step (plimit : N) (st : pst) (chunk : bytes) : pst :=
  let '(w1, i) := lw_append (ps_w st) chunk in
  let '(text, carry') := pump_text (ps_carry st) chunk in
  let '(pv, _, _) := truncate_utf8 text (N.min plimit OUTPUT_EVENT_MAX_BYTES) in
  {| ps_w := w1; ps_carry := carry'; ps_frames := ps_frames st ++ [{| df_preview := pv; df_info := i |}] |}.

Definition pump_run (cap plimit : N) (chunks : list bytes) : pst :=
  fold_left (pump_step plimit) chunks {| ps_w := lw_new cap; ps_carry := []; ps_frames := [] |}.

Definition pump (cap plimit : N) (chunks : list bytes) : lw * list dframe :=
  let s := pump_run cap plimit chunks in (ps_w s, ps_frames s).

(* ================= capture_stream (foreground shell tool) ================= *)
Record cs := {
  cs_prev : bytes; cs_nprev : N;        (* preview buffer *)
  cs_total : N;
  cs_full : bool;                       (* preview_full *)
  cs_file : option bytes; cs_nfile : N  (* spill file (tmp artifact) and stored_bytes *)
}.

Definition cs0 : cs :=
  {| cs_prev := []; cs_nprev := 0; cs_total := 0; cs_full := false; cs_file := None; cs_nfile := 0 |}.

(* write_artifact_tail: (file, stored) -> chunk -> (file, stored) *)
Definition tail_write (amax : N) (f : bytes) (n : N) (c : bytes) : bytes * N :=
  if amax =? 0 then (f, n)
  else let remaining := amax - n in
       if remaining =? 0 then (f, n)
       else let tk := N.min remaining (nlen c) in
            if tk =? 0 then (f, n) else (f ++ take tk c, n + tk).

Definition cs_step (pmax amax : N) (s : cs) (chunk : bytes) : cs :=
  let total := cs_total s + nlen chunk in
  let before := cs_nprev s in
  let '(prev, nprev, full) :=
    if cs_full s then (cs_prev s, cs_nprev s, true)
    else let tk := N.min (pmax - cs_nprev s) (nlen chunk) in
         let np := cs_nprev s + tk in
         (cs_prev s ++ take tk chunk, np, pmax <=? np) in
  match cs_file s with
  | None =>
    if negb full then
      {| cs_prev := prev; cs_nprev := nprev; cs_total := total; cs_full := full; cs_file := None; cs_nfile := cs_nfile s |}
    else if amax =? 0 then
      {| cs_prev := prev; cs_nprev := nprev; cs_total := total; cs_full := full; cs_file := None; cs_nfile := cs_nfile s |}
    else
      let initial := N.min nprev amax in
      let f0 := take initial prev in
      let already := N.min (nprev - before) (nlen chunk) in
      let '(f1, n1) := tail_write amax f0 initial (drop already chunk) in
      {| cs_prev := prev; cs_nprev := nprev; cs_total := total; cs_full := full; cs_file := Some f1; cs_nfile := n1 |}
  | Some f =>
    let '(f1, n1) := tail_write amax f (cs_nfile s) chunk in
    {| cs_prev := prev; cs_nprev := nprev; cs_total := total; cs_full := full; cs_file := Some f1; cs_nfile := n1 |}
  end.

(* str::lines() then trim_end_matches('\r'), on the bytes of a (valid UTF-8) text:
   split at 0x0A, no final empty line, all trailing 0x0D of each line removed *)
Fixpoint strip_cr_rev (r : bytes) : bytes :=
  match r with 13 :: t => strip_cr_rev t | _ => r end.
Definition strip_cr (l : bytes) : bytes := rev (strip_cr_rev (rev l)).

Fixpoint lines_aux (cur : bytes) (bs : bytes) : list bytes :=     (* cur: current line, reversed *)
  match bs with
  | [] => match cur with [] => [] | _ => [rev (strip_cr_rev cur)] end
  | b :: r => if b =? 10 then rev (strip_cr_rev cur) :: lines_aux [] r else lines_aux (b :: cur) r
  end.
Definition lines (bs : bytes) : list bytes := lines_aux [] bs.

Record artifact := { a_id : N; a_bytes : N; a_trunc : bool }.
Record capture := {
  cp_lines : list bytes; cp_bytes_preview : N; cp_bytes_total : N; cp_truncated : bool;
  cp_artifact : option artifact; cp_blob : bytes     (* cp_blob: content of the blob named by the id *)
}.

(* the preview limit may fall inside a character: the preview ends with the last complete one (S19) *)
Definition shell_preview (prev : bytes) (truncated : bool) : bytes :=
  if truncated then take (nlen prev - incomplete_tail prev) prev else prev.

Section WithHash.
  Variable H : bytes -> N.            (* the content hash (SHA-256 in the code) *)

  Definition cs_finish (pmax : N) (s : cs) : capture :=
    let truncated := pmax <? cs_total s in
    let '(text, _, used) := truncate_utf8 (shell_preview (cs_prev s) truncated) pmax in
    let art := if negb truncated then None
               else match cs_file s with
                    | None => None
                    | Some f => Some {| a_id := H f; a_bytes := cs_nfile s; a_trunc := cs_nfile s <? cs_total s |}
                    end in
    {| cp_lines := lines text; cp_bytes_preview := used; cp_bytes_total := cs_total s;
       cp_truncated := truncated; cp_artifact := art;
       cp_blob := match art, cs_file s with Some _, Some f => f | _, _ => [] end |}.

  Definition capture_stream (pmax amax : N) (chunks : list bytes) : capture :=
    cs_finish pmax (fold_left (cs_step pmax amax) chunks cs0).
End WithHash.

(* ================= correspondence cases ================= *)
(* 64-bit FNV-1a, the checksum the harness reports for stored blobs *)
Definition fnv_step (h b : N) : N := (N.lxor h b * 1099511628211) mod 18446744073709551616.
Definition fnv (bs : bytes) : N := fold_left fnv_step bs 14695981039346656037.

(* content = concatenation of repeated patterns; chunks = content cut at the given sizes
   (a final chunk takes what is left) *)
Fixpoint repeat_app (p : bytes) (n : nat) : bytes :=
  match n with O => [] | S k => p ++ repeat_app p k end.
Definition expand (segs : list (bytes * N)) : bytes :=
  concat (map (fun s => repeat_app (fst s) (N.to_nat (snd s))) segs).
Fixpoint split_sizes (sizes : list N) (content : bytes) : list bytes :=
  match sizes with
  | [] => match content with [] => [] | _ => [content] end
  | n :: r => take n content :: split_sizes r (drop n content)
  end.

Definition enc_bool (b : bool) : list N := [if b then 1 else 0].
Definition enc_bytes (b : bytes) : list N := nlen b :: b.
Definition enc_info (i : apinfo) : list N :=
  [ap_off i; ap_bytes i; ap_total i; ap_stored i] ++ enc_bool (ap_trunc i).
Definition enc_lw (w : lw) : list N :=
  [lw_total w; lw_nstored w] ++ enc_bool (lw_trunc w) ++ [nlen (lw_file w); fnv (lw_file w)].
Definition enc_page (p : page) : list N :=
  enc_bytes (pg_content p) ++ [pg_bytes p; pg_total p] ++ enc_bool (pg_trunc p).
Definition enc_trunc (r : bytes * bool * N) : list N :=
  let '(t, tr, used) := r in enc_bytes t ++ enc_bool tr ++ [used].
Definition enc_frame (f : dframe) : list N := enc_bytes (df_preview f) ++ enc_info (df_info f).
Definition enc_capture (c : capture) : list N :=
  nlen (cp_lines c) :: concat (map enc_bytes (cp_lines c))
  ++ [cp_bytes_preview c; cp_bytes_total c] ++ enc_bool (cp_truncated c)
  ++ match cp_artifact c with
     | None => [0]
     | Some a => [1; a_id a; a_bytes a] ++ enc_bool (a_trunc a) ++ [nlen (cp_blob c)]
     end.

Inductive cspec :=
| CLogWriter (cap : N) (content : list (bytes * N)) (sizes : list N)
| CPages (content : list (bytes * N)) (reqs : list (N * N))           (* (offset, max_bytes) *)
| CWalk (content : list (bytes * N)) (maxb : N) (fuel : nat)
| CTrunc (bs : bytes) (maxb : N)
| CPump (cap plimit : N) (content : list (bytes * N)) (sizes : list N)
| CCapture (pmax amax : N) (content : list (bytes * N)) (sizes : list N)
| CLifecycle (t : list lev)
| CPtyRun (sched : list pact).

Record case := { c_spec : cspec; c_expect : list N }.

Definition observe (s : cspec) : list N :=
  match s with
  | CLogWriter cap content sizes =>
    let '(w, infos) := lw_run (lw_new cap) (split_sizes sizes (expand content)) in
    nlen infos :: concat (map enc_info infos) ++ enc_lw w
  | CPages content reqs =>
    let file := expand content in
    concat (map (fun r => enc_page (read_range file (fst r) (snd r))) reqs)
  | CWalk content maxb fuel =>
    let ps := page_walk read_range fuel (expand content) 0 maxb in
    nlen ps :: concat (map enc_page ps)
  | CTrunc bs maxb => enc_trunc (truncate_utf8 bs maxb)
  | CPump cap plimit content sizes =>
    let '(w, fs) := pump cap plimit (split_sizes sizes (expand content)) in
    nlen fs :: concat (map enc_frame fs) ++ enc_lw w
  | CCapture pmax amax content sizes =>
    enc_capture (capture_stream fnv pmax amax (split_sizes sizes (expand content)))
  | CLifecycle t => lc_check [] t
  | CPtyRun sched => pty_check sched
  end.

Definition check_case (c : case) : bool := lN_eqb (observe (c_spec c)) (c_expect c).
Definition model_obs (c : case) : list N := observe (c_spec c).
