(* C11 — correspondence entry points: the model instantiated with the configuration regenerated
   from the source (Gen/LockSpans.v).  No proofs. *)
From RipV Require Import Base.Prelude.
From RipV Require Export Model.WsLock Gen.LockSpans.

Definition check_case (c : case) : bool := check_case_cfg gen_cfg c.
Definition model_obs (c : case) : list N := model_obs_cfg gen_cfg c.
