(* C16 — the send gate of the tool loop, one level below the abstract `valid` of Model/ToolLoop.v:
     rip_openresponses::validate_create_response_body(&body)      -> the validator's messages (`verrs`, abstract)
     CreateResponsePayload::new (create_response.rs)              -> `errors` = these messages, each passed through a
                                                                     per-message post-processing `post` (None = the
                                                                     message is dropped); /repo keeps them as they are
     stream_openresponses_request (session.rs):  `if !req.payload.errors().is_empty() { ...; return Err("invalid_request") }`
   The decision "send / refuse" must be the validator's verdict (`verrs = []`) and nothing else: in particular it must
   not depend on how long the messages are or what they quote (jsonschema quotes the offending instance — for an
   invalid `input` that is the whole item array, tool outputs and arguments of any size included).
   Messages are Rust Strings: `len()` counts BYTES of the UTF-8 encoding; `str` here is the list of code points, the
   byte view is Base.Utf8.encode_cp.  No proofs here (Proofs/ToolLoopGateProofs.v). *)
From Coq Require Import Strings.String Strings.Ascii.
From RipV Require Export Model.ToolLoop.
From RipV Require Import Base.Utf8.

Fixpoint filter_map {A B} (f : A -> option B) (l : list A) : list B :=
  match l with
  | [] => []
  | x :: r => match f x with Some y => y :: filter_map f r | None => filter_map f r end
  end.

(* `errors` of the payload *)
Definition payload_errors (post : str -> option str) (verrs : list str) : list str := filter_map post verrs.
(* the gate: true = the request goes on to `request.send()` *)
Definition gate_open (post : str -> option str) (verrs : list str) : bool :=
  match payload_errors post verrs with [] => true | _ :: _ => false end.
Definition is_nil {A} (l : list A) : bool := match l with [] => true | _ :: _ => false end.

(* /repo: `Err(errs) => errs` *)
Definition POST_KEEP : str -> option str := fun m => Some m.

(* What T1 (tools/gen/tool_loop.py) reads off the `Err(errs) => ...` arm of CreateResponsePayload::new:
   PS_keep      the vector as it is;
   PS_map       `errs.into_iter().map(f).collect()` and no other adaptor: every message rewritten by a function
                String -> String (total), the number of messages unchanged;
   PS_may_drop  anything through which a message can vanish (filter, filter_map, flat_map, take, skip, retain,
                truncate, dedup, ... or a form the extractor does not know). *)
Inductive post_shape := PS_keep | PS_map | PS_may_drop.
Definition shape_never_drops (s : post_shape) : bool := match s with PS_may_drop => false | _ => true end.
Definition shape_admits (s : post_shape) (post : str -> option str) : Prop :=
  match s with
  | PS_keep => forall m, post m = Some m
  | PS_map => forall m, post m <> None
  | PS_may_drop => True
  end.
Definition post_shape_eqb (a b : post_shape) : bool :=
  match a, b with PS_keep, PS_keep | PS_map, PS_map | PS_may_drop, PS_may_drop => true | _, _ => false end.
Definition POST_SHAPE : post_shape := PS_keep.   (* the value the model was written for; T1: gen_gate_errors_ok *)

(* the `valid` of Model.ToolLoop.run, spelled out *)
Definition valid_by (post : str -> option str) (verrs : N -> request -> list str) : N -> request -> bool :=
  fun k q => gate_open post (verrs k q).

(* ---------- bounding the length of a message (String::len = bytes) ---------- *)
Definition cp_len (c : N) : N := nlen (encode_cp c).
Fixpoint blen (m : str) : N := match m with [] => 0 | c :: r => cp_len c + blen r end.
(* `m.get(..n)`: the prefix of exactly n bytes; None when byte n is not a character boundary (or beyond the end) *)
Fixpoint get_to (m : str) (n : N) : option str :=
  if n =? 0 then Some [] else
  match m with
  | [] => None
  | c :: r => if cp_len c <=? n then option_map (cons c) (get_to r (n - cp_len c)) else None
  end.
(* the longest prefix of at most n bytes that ends on a character boundary (floor_char_boundary) *)
Fixpoint floor_to (m : str) (n : N) : str :=
  match m with
  | [] => []
  | c :: r => if cp_len c <=? n then c :: floor_to r (n - cp_len c) else []
  end.
Definition ELLIPSIS : str := Eval vm_compute in lit "...".
(* seeded change C16-8: `let head = message.get(..MAX)?; Some(format!("{head}... "))` under filter_map *)
Definition clip_get (n : N) (m : str) : option str :=
  if blen m <=? n then Some m else option_map (fun h => h ++ ELLIPSIS) (get_to m n).
(* a clipping that cannot lose a message: cut at the last boundary at or below n *)
Definition clip_floor (n : N) (m : str) : option str :=
  if blen m <=? n then Some m else Some (floor_to m n ++ ELLIPSIS).

(* a message of 2049 bytes: one ASCII byte, then 1024 two-byte characters — byte 2048 is inside the last one *)
Definition MSG_2049 : str := 91 :: repeat 1078 1024.
