(* Shared frame model (DESIGN section 3): stream kinds, the 38 event types of rip-kernel's `EventKind`
   (declaration order), their stream classification, and the frame record every log/continuity model
   uses.  No proofs here.  `kind_of` transcribes `Event::stream_kind` (rip-kernel/src/lib.rs:38-62);
   Gen/KindTable.v re-extracts the table from the source on every run and checks it against
   `model_kind_table` (obligation gen_kind_table_ok). *)
From RipV Require Import Base.Prelude.
From Coq Require Import String.

(* StreamKind::Artifact exists in the enum but is never returned by stream_kind() *)
Inductive skind := KSession | KTask | KContinuity.

Definition skind_eqb (a b : skind) : bool :=
  match a, b with
  | KSession, KSession | KTask, KTask | KContinuity, KContinuity => true
  | _, _ => false
  end.
Definition skind_code (k : skind) : N := match k with KSession => 0 | KTask => 1 | KContinuity => 2 end.

Inductive etype :=
| ESessionStarted | EOutputTextDelta | ESessionEnded | EContinuityCreated
| EContinuityMessageAppended | EContinuityRunSpawned | EContinuityContextSelectionDecided
| EContinuityContextCompiled | EContinuityProviderCursorUpdated
| EContinuityCompactionCheckpointCreated | EContinuityCompactionAutoScheduleDecided
| EContinuityJobSpawned | EContinuityJobEnded | EContinuityRunEnded
| EContinuityToolSideEffects | EContinuityBranched | EContinuityHandoffCreated | EToolStarted
| EToolStdout | EToolStderr | EToolEnded | EToolFailed | EOpenResponsesRequest
| EOpenResponsesRequestStarted | EOpenResponsesResponseHeaders
| EOpenResponsesResponseFirstByte | EProviderEvent | ECheckpointCreated | ECheckpointRewound
| ECheckpointFailed | EToolTaskSpawned | EToolTaskStatus | EToolTaskCancelRequested
| EToolTaskCancelled | EToolTaskOutputDelta | EToolTaskStdinWritten | EToolTaskResized
| EToolTaskSignalled.

Definition all_etypes : list etype :=
  [ESessionStarted; EOutputTextDelta; ESessionEnded; EContinuityCreated;
   EContinuityMessageAppended; EContinuityRunSpawned; EContinuityContextSelectionDecided;
   EContinuityContextCompiled; EContinuityProviderCursorUpdated;
   EContinuityCompactionCheckpointCreated; EContinuityCompactionAutoScheduleDecided;
   EContinuityJobSpawned; EContinuityJobEnded; EContinuityRunEnded; EContinuityToolSideEffects;
   EContinuityBranched; EContinuityHandoffCreated; EToolStarted; EToolStdout; EToolStderr;
   EToolEnded; EToolFailed; EOpenResponsesRequest; EOpenResponsesRequestStarted;
   EOpenResponsesResponseHeaders; EOpenResponsesResponseFirstByte; EProviderEvent;
   ECheckpointCreated; ECheckpointRewound; ECheckpointFailed; EToolTaskSpawned;
   EToolTaskStatus; EToolTaskCancelRequested; EToolTaskCancelled; EToolTaskOutputDelta;
   EToolTaskStdinWritten; EToolTaskResized; EToolTaskSignalled].

Definition kind_of (t : etype) : skind :=
  match t with
  | EContinuityCreated | EContinuityMessageAppended | EContinuityRunSpawned
  | EContinuityContextSelectionDecided | EContinuityContextCompiled
  | EContinuityProviderCursorUpdated | EContinuityCompactionCheckpointCreated
  | EContinuityCompactionAutoScheduleDecided | EContinuityJobSpawned | EContinuityJobEnded
  | EContinuityRunEnded | EContinuityToolSideEffects | EContinuityBranched
  | EContinuityHandoffCreated => KContinuity
  | EToolTaskSpawned | EToolTaskStatus | EToolTaskCancelRequested | EToolTaskCancelled
  | EToolTaskOutputDelta | EToolTaskStdinWritten | EToolTaskResized | EToolTaskSignalled => KTask
  | _ => KSession
  end.

Definition etype_name (t : etype) : string :=
  match t with
  | ESessionStarted => "SessionStarted"
  | EOutputTextDelta => "OutputTextDelta"
  | ESessionEnded => "SessionEnded"
  | EContinuityCreated => "ContinuityCreated"
  | EContinuityMessageAppended => "ContinuityMessageAppended"
  | EContinuityRunSpawned => "ContinuityRunSpawned"
  | EContinuityContextSelectionDecided => "ContinuityContextSelectionDecided"
  | EContinuityContextCompiled => "ContinuityContextCompiled"
  | EContinuityProviderCursorUpdated => "ContinuityProviderCursorUpdated"
  | EContinuityCompactionCheckpointCreated => "ContinuityCompactionCheckpointCreated"
  | EContinuityCompactionAutoScheduleDecided => "ContinuityCompactionAutoScheduleDecided"
  | EContinuityJobSpawned => "ContinuityJobSpawned"
  | EContinuityJobEnded => "ContinuityJobEnded"
  | EContinuityRunEnded => "ContinuityRunEnded"
  | EContinuityToolSideEffects => "ContinuityToolSideEffects"
  | EContinuityBranched => "ContinuityBranched"
  | EContinuityHandoffCreated => "ContinuityHandoffCreated"
  | EToolStarted => "ToolStarted"
  | EToolStdout => "ToolStdout"
  | EToolStderr => "ToolStderr"
  | EToolEnded => "ToolEnded"
  | EToolFailed => "ToolFailed"
  | EOpenResponsesRequest => "OpenResponsesRequest"
  | EOpenResponsesRequestStarted => "OpenResponsesRequestStarted"
  | EOpenResponsesResponseHeaders => "OpenResponsesResponseHeaders"
  | EOpenResponsesResponseFirstByte => "OpenResponsesResponseFirstByte"
  | EProviderEvent => "ProviderEvent"
  | ECheckpointCreated => "CheckpointCreated"
  | ECheckpointRewound => "CheckpointRewound"
  | ECheckpointFailed => "CheckpointFailed"
  | EToolTaskSpawned => "ToolTaskSpawned"
  | EToolTaskStatus => "ToolTaskStatus"
  | EToolTaskCancelRequested => "ToolTaskCancelRequested"
  | EToolTaskCancelled => "ToolTaskCancelled"
  | EToolTaskOutputDelta => "ToolTaskOutputDelta"
  | EToolTaskStdinWritten => "ToolTaskStdinWritten"
  | EToolTaskResized => "ToolTaskResized"
  | EToolTaskSignalled => "ToolTaskSignalled"
  end%string.

(* position in the declaration order: the code the harness uses for an event type *)
Definition etype_code (t : etype) : N :=
  match t with
  | ESessionStarted => 0 | EOutputTextDelta => 1 | ESessionEnded => 2 | EContinuityCreated => 3
  | EContinuityMessageAppended => 4 | EContinuityRunSpawned => 5
  | EContinuityContextSelectionDecided => 6 | EContinuityContextCompiled => 7
  | EContinuityProviderCursorUpdated => 8 | EContinuityCompactionCheckpointCreated => 9
  | EContinuityCompactionAutoScheduleDecided => 10 | EContinuityJobSpawned => 11
  | EContinuityJobEnded => 12 | EContinuityRunEnded => 13 | EContinuityToolSideEffects => 14
  | EContinuityBranched => 15 | EContinuityHandoffCreated => 16 | EToolStarted => 17
  | EToolStdout => 18 | EToolStderr => 19 | EToolEnded => 20 | EToolFailed => 21
  | EOpenResponsesRequest => 22 | EOpenResponsesRequestStarted => 23
  | EOpenResponsesResponseHeaders => 24 | EOpenResponsesResponseFirstByte => 25
  | EProviderEvent => 26 | ECheckpointCreated => 27 | ECheckpointRewound => 28
  | ECheckpointFailed => 29 | EToolTaskSpawned => 30 | EToolTaskStatus => 31
  | EToolTaskCancelRequested => 32 | EToolTaskCancelled => 33 | EToolTaskOutputDelta => 34
  | EToolTaskStdinWritten => 35 | EToolTaskResized => 36 | EToolTaskSignalled => 37
  end.
Definition etype_eqb (a b : etype) : bool := etype_code a =? etype_code b.
Definition etype_of_code (c : N) : etype := nth (N.to_nat c) all_etypes ESessionStarted.

Definition model_kind_table : list (string * skind) :=
  map (fun t => (etype_name t, kind_of t)) all_etypes.

Fixpoint kind_table_eqb (a b : list (string * skind)) : bool :=
  match a, b with
  | [], [] => true
  | (n1, k1) :: a', (n2, k2) :: b' => String.eqb n1 n2 && skind_eqb k1 k2 && kind_table_eqb a' b'
  | _, _ => false
  end.

(* A frame as far as the log/continuity models inspect it.  Identifiers are N (the harness maps
   every uuid to its first-appearance ordinal).  `sid` is Event::session_id = stream_id; the stream
   key is (fkind, sid) exactly as in rip-log's validator.  `args` carries the fields of the event
   type that some property reads, in declaration order, ids as ordinals, `Option` as 0 / 1+x
   (see the accessors of the models that use them; unused fields are dropped). *)
Record frame := { fid : N; sid : N; seq : N; ety : etype; args : list N }.

Definition fkind (f : frame) : skind := kind_of (ety f).

Definition frame_eqb (a b : frame) : bool :=
  (fid a =? fid b) && (sid a =? sid b) && (seq a =? seq b)
  && etype_eqb (ety a) (ety b) && lN_eqb (args a) (args b).

Definition is_etype (t : etype) (f : frame) : bool := etype_eqb (ety f) t.

(* flat observation encoding of a frame header: [kind; sid; seq; etype] *)
Definition enc_hdr (f : frame) : list N := [skind_code (fkind f); sid f; seq f; etype_code (ety f)].
