(* The invariant of the ContinuityStore transition system used by C01 (definitions only; the
   preservation proof is Proofs/ContOrderProofs.v).  `Inv` holds of the empty store, of every store
   reached by well-formed programs under any schedule, and (given `Coherent`) after a restart. *)
From RipV Require Import Base.Prelude Model.Frames Model.Log Model.ContStore.

Definition cnext (st : state) (c : N) : N := next_of KContinuity c (s_log st).
Definition tnext (st : state) (t : N) : N := next_of KTask t (s_log st).
Definition snext (st : state) (s : N) : N := next_of KSession s (s_log st).

(* phases in which the actor owns the seq mutex *)
Definition holds (ph : phase) : bool :=
  match ph with
  | PLocked | PChosen | PLogged _ | PAdvanced | PAlloc | PChild _ _ _ => true
  | _ => false
  end.
Definition tholds (ph : phase) : bool :=
  match ph with PTLocked | PTChosen | PTLogged => true | _ => false end.

(* the owner is between writing a frame of thread c and recording c's next seq *)
Definition busy_on (p : proc) (c : N) : Prop :=
  match p_ph p with
  | PLogged _ => p_cid p = Some c
  | PChild _ _ false => p_child p = Some c
  | _ => False
  end.
Definition busy (st : state) (c : N) : Prop :=
  exists a p, s_procs st a = Some p /\ busy_on p c.

Definition cont_ok (st : state) (p : proc) : Prop :=
  match p_ph p with
  | PChosen => exists c n, p_cid p = Some c /\ p_seq p = Some n /\ s_next st c = Some n /\ n = cnext st c
  | PLogged _ => exists c n f, p_cid p = Some c /\ p_seq p = Some n /\ s_next st c = Some n
                               /\ cnext st c = n + 1 /\ p_last p = Some f /\ sid f = c
  | PAlloc => exists c, p_child p = Some c /\ c < s_fresh st /\ cnext st c = 0 /\ s_next st c = None
  | PChild k _ nx => exists c, p_child p = Some c /\ c < s_fresh st /\ cnext st c = k
                               /\ (nx = true -> s_next st c = Some k)
                               /\ (forall f, p_last p = Some f -> sid f = c)
                               (* the creation's own frame is the only one so far and the counter was never recorded:
                                  the cache still holds nothing for the child (a failed save_index returns here) *)
                               /\ 1 <= k /\ (nx = false -> k = 1 -> s_next st c = None)
  | _ => True
  end.

Definition task_ok (st : state) (a : N) (p : proc) : Prop :=
  match p_ph p with
  | PTLocked | PTLogged => s_tmu st (p_sess p) = Some a /\ s_tcnt st (p_sess p) = tnext st (p_sess p)
  | PTChosen => s_tmu st (p_sess p) = Some a
                /\ exists n, p_seq p = Some n /\ n = tnext st (p_sess p) /\ s_tcnt st (p_sess p) = n + 1
  | _ => True
  end.

Definition is_sess_emit (m : mstep) : bool := match m with MSessEmit _ => true | _ => false end.
Definition uses_sess (r : list mstep) : bool := existsb is_sess_emit r.
Definition sess_ok (st : state) (p : proc) : Prop :=
  uses_sess (p_rem p) = true -> p_cnt p = snext st (p_sess p).

Record Inv (st : state) : Prop := {
  i_valid : Valid (s_log st);
  (* the cached next seq of a thread is the number of frames the thread has *)
  i_next : forall c n, s_next st c = Some n -> n = cnext st c \/ busy st c;
  (* ids not handed out yet are unused *)
  i_fresh : forall c, s_fresh st <= c -> cnext st c = 0 /\ s_next st c = None;
  i_lock : forall a p, s_procs st a = Some p -> holds (p_ph p) = true -> s_mu st = Some a;
  i_wf : forall a p, s_procs st a = Some p -> wf_from (p_ph p) (p_rem p) = true;
  i_cont : forall a p, s_procs st a = Some p -> cont_ok st p;
  i_task : forall a p, s_procs st a = Some p -> task_ok st a p;
  i_tasks : forall t, s_tmu st t = None -> s_tcnt st t = tnext st t;
  i_sess : forall a p, s_procs st a = Some p -> sess_ok st p;
  (* a session (run) stream has one writer *)
  i_sessu : forall a b pa pb, a <> b -> s_procs st a = Some pa -> s_procs st b = Some pb ->
                              uses_sess (p_rem pa) = true -> uses_sess (p_rem pb) = true ->
                              p_sess pa <> p_sess pb
}.

(* the part of the invariant that does not mention actors: what a store must satisfy when a set of
   actors is spawned on it *)
Record SInv (st : state) : Prop := {
  si_valid : Valid (s_log st);
  si_next : forall c n, s_next st c = Some n -> n = cnext st c;
  si_fresh : forall c, s_fresh st <= c -> cnext st c = 0 /\ s_next st c = None;
  si_tasks : forall t, s_tmu st t = None -> s_tcnt st t = tnext st t
}.

(* no actor is inside a call *)
Definition AllIdle (st : state) : Prop :=
  forall a p, s_procs st a = Some p -> p_ph p = PIdle.

(* what a restart needs of the files it finds: the log validates and ids not handed out yet are
   unused.  Nothing is required of the sidecars (absent, torn, stale prefix, anything): since the S3
   repair the next seq of a thread is read from the log.  `Coherent` is what the code before that
   repair needed in addition (the tail of every readable sidecar names the last frame). *)
Record Restartable (st : state) : Prop := {
  rs_valid : Valid (s_log st);
  rs_fresh : forall c, s_fresh st <= c -> cnext st c = 0
}.
Definition Coherent (st : state) : Prop :=
  forall c q, side_tail c (s_side st c) = Some q -> q + 1 = cnext st c.

(* hypotheses on the programs of a spawn *)
Definition progs_wf (ps : list (list mstep * N)) : Prop :=
  Forall (fun x => wf_prog (fst x) = true) ps.
(* session actors write distinct, so far unused run streams (single writer, S6) *)
Fixpoint sess_distinct (ps : list (list mstep * N)) : Prop :=
  match ps with
  | [] => True
  | (prog, s) :: r =>
    (uses_sess prog = true -> Forall (fun y => uses_sess (fst y) = true -> snd y <> s) r)
    /\ sess_distinct r
  end.
Definition sess_fresh (st : state) (ps : list (list mstep * N)) : Prop :=
  Forall (fun x => uses_sess (fst x) = true -> snext st (snd x) = 0) ps.
