(* C09 — executable model of the compaction logic of ripd (continuities.rs):
   cut-point planner (compaction_cut_points_v1), manual checkpoint (compaction_checkpoint_cumulative_v1),
   auto compaction = spawn job / run job / end job (compaction_auto_v1), scheduler with in-flight
   detection (compaction_auto_schedule_v1), status projection (compaction_status_v1).
   A thread history is a list of frames in stream order, carrying the fields the compaction code reads.
   No proofs here (Proofs/CompactionProofs.v). *)
From RipV Require Import Base.Prelude.

(* ---------- frames ---------- *)
(* a planned cut point: (target_message_ordinal, to_seq, to_message_id) *)
Record plan := { pl_ord : N; pl_seq : N; pl_mid : N }.
(* a created checkpoint as reported in results / job_ended.result.created *)
Record created := { cr_ck : N; cr_art : N; cr_seq : N; cr_mid : N }.

Inductive body :=
| BMsg (actor content : N)                                   (* continuity_message_appended *)
| BCkpt (rule art to_seq : N) (to_mid : option N)            (* continuity_compaction_checkpoint_created (cumulative_v1) *)
| BJobSpawned (jid : N) (planned : list plan) (stride : N)   (* continuity_job_spawned, kind compaction_summarizer_v1 *)
| BJobEnded (jid status : N) (made : list created)           (* continuity_job_ended; status 0 completed, 1 failed *)
| BDecided (decision : N) (jid : option N) (planned : list plan)
           (stride maxnew : N) (block exec : bool) (count : N) (* continuity_compaction_auto_schedule_decided *)
| BOther.                                                    (* created / run spawned / run ended / side effects … *)

Record ev := { eseq : N; eid : N; ebody : body }.

(* cut_rule_id: "manual_v1" = 0, "stride_messages_v1/<s>" = s + 1 *)
Definition rule_manual : N := 0.
Definition rule_stride (s : N) : N := s + 1.

(* ---------- constants of the code (Gen/CompactionConsts.v re-reads them from the source) ---------- *)
Record consts := {
  k_default_stride : N;      (* unwrap_or(10_000) *)
  k_limit_lo : N; k_limit_hi : N;      (* limit.clamp(1, 32) *)
  k_plan_limit : N;          (* planners ask for limit 32 *)
  k_maxnew_lo : N; k_maxnew_hi : N;    (* max_new_checkpoints.clamp(1, 32) *)
  k_ck_window : N;           (* latest_compaction_checkpoint_before_or_at_seq_v1: MAX_BACKSCAN_EVENTS *)
  k_inflight_window : N      (* find_inflight…: MAX_TAIL_EVENTS *)
}.
Definition real_consts : consts :=
  {| k_default_stride := 10000; k_limit_lo := 1; k_limit_hi := 32; k_plan_limit := 32;
     k_maxnew_lo := 1; k_maxnew_hi := 32; k_ck_window := 10000; k_inflight_window := 512 |}.

Definition clamp (lo hi x : N) : N := N.max lo (N.min x hi).     (* Ord::clamp for lo <= hi *)

(* ---------- projections of a history ---------- *)
Definition msgs (l : list ev) : list (N * N) :=
  flat_map (fun e => match ebody e with BMsg _ _ => [(eseq e, eid e)] | _ => [] end) l.

Record ck := { ck_to : N; ck_seq : N; ck_id : N; ck_art : N; ck_rule : N; ck_mid : option N }.
Definition ckpts (l : list ev) : list ck :=
  flat_map (fun e => match ebody e with
                     | BCkpt r a t m => [{| ck_to := t; ck_seq := eseq e; ck_id := eid e; ck_art := a; ck_rule := r; ck_mid := m |}]
                     | _ => [] end) l.

Definition lastn {A} (n : N) (l : list A) : list A :=
  if nlen l <=? n then l else skipn (length l - N.to_nat n) l.

(* "better" as every scan in the code spells it: larger to_seq, then larger frame seq *)
Definition ck_better (c b : ck) : bool :=
  (ck_to b <? ck_to c) || ((ck_to c =? ck_to b) && (ck_seq b <? ck_seq c)).

(* latest_compaction_checkpoint_before_or_at_seq_v1 over the scanned events (any order) *)
Definition best_le (cks : list ck) (maxs : N) : option ck :=
  fold_left (fun best c => if maxs <? ck_to c then best
                           else match best with None => Some c
                                | Some b => if ck_better c b then Some c else best end) cks None.

(* the truth scans start from (best_to_seq, best_event_seq) = (0, 0) and need a strict improvement *)
Definition best_lt_truth (cks : list ck) (bound : N) : option ck * N :=
  let '(b, bt, _) :=
    fold_left (fun acc c => let '(best, bt, bs) := acc in
                 if bound <=? ck_to c then acc
                 else if (bt <? ck_to c) || ((ck_to c =? bt) && (bs <? ck_seq c))
                      then (Some c, ck_to c, ck_seq c) else acc) cks (None, 0, 0) in
  (b, bt).

(* ---------- cut points ---------- *)
Record cutpt := { cp_ord : N; cp_seq : N; cp_mid : N; cp_done : bool; cp_ck : option N }.

(* ordinals latest, latest - stride, … while > 0, at most n of them *)
Fixpoint cut_ords (n : nat) (ord stride : N) : list N :=
  match n with
  | O => []
  | S n' => if ord =? 0 then [] else ord :: cut_ords n' (ord - stride) stride
  end.

(* latest_compaction_checkpoint_before_or_at_seq_v1 as repaired: the bounded backward scan (newest first) answers
   only when it covered the whole checkpoint sidecar; otherwise Err, and every caller falls back to truth *)
Definition ck_lookup (K : consts) (cks : list ck) (maxs : N) : option (option ck) :=
  if nlen cks <=? k_ck_window K then Some (best_le (rev cks) maxs) else None.

Definition mk_cut (ord s id : N) (b : option ck) : cutpt :=
  let done := match b with Some c => ck_to c =? s | None => false end in
  {| cp_ord := ord; cp_seq := s; cp_mid := id; cp_done := done; cp_ck := if done then option_map ck_id b else None |}.

Definition cut_point_at (K : consts) (l : list ev) (ord : N) : list cutpt :=
  let ms := msgs l in
  if (ord =? 0) || (nlen ms <? ord) then []
  else match nth_error ms (N.to_nat (ord - 1)) with
       | None => []
       | Some (s, id) =>
         let b := match ck_lookup K (ckpts l) s with
                  | Some b => b
                  | None => best_le (ckpts l) s          (* replay + forward scan of all checkpoint frames *)
                  end in
         [mk_cut ord s id b]
       end.

Definition cut_points (K : consts) (stride lim : N) (l : list ev) : list cutpt :=
  let latest := (nlen (msgs l) / stride) * stride in
  flat_map (cut_point_at K l) (cut_ords (N.to_nat (clamp (k_limit_lo K) (k_limit_hi K) lim)) latest stride).

(* before the repair the scan result was used even when it had stopped at the event cap *)
Definition cut_point_at_unfixed (K : consts) (l : list ev) (ord : N) : list cutpt :=
  let ms := msgs l in
  if (ord =? 0) || (nlen ms <? ord) then []
  else match nth_error ms (N.to_nat (ord - 1)) with
       | None => []
       | Some (s, id) => [mk_cut ord s id (best_le (rev (lastn (k_ck_window K) (ckpts l))) s)]
       end.
Definition cut_points_unfixed (K : consts) (stride lim : N) (l : list ev) : list cutpt :=
  let latest := (nlen (msgs l) / stride) * stride in
  flat_map (cut_point_at_unfixed K l) (cut_ords (N.to_nat (clamp (k_limit_lo K) (k_limit_hi K) lim)) latest stride).

(* the planner shared by auto / schedule: latest first, skip checkpointed, stop at max_new *)
Definition to_plan (c : cutpt) : plan := {| pl_ord := cp_ord c; pl_seq := cp_seq c; pl_mid := cp_mid c |}.
Definition plan_cuts (K : consts) (stride maxnew : N) (l : list ev) : list plan :=
  firstn (N.to_nat maxnew)
         (map to_plan (filter (fun c => negb (cp_done c)) (cut_points K stride (k_plan_limit K) l))).

(* ---------- summaries (artifact store under .rip/artifacts/blobs) ---------- *)
Record summ := {
  su_to_seq : N; su_to_mid : option N;        (* coverage *)
  su_base : option N; su_note : N;            (* basis: base artifact; 0 none, 1 legacy_base, 2 base_read_failed *)
  su_kind : N;                                (* 0 manual text, 1 manual text that is the legacy placeholder, 2 auto *)
  su_slice : list (N * N);                    (* auto: (actor, content) of the messages folded into the delta *)
  su_base_used : bool;                        (* auto: base markdown was spliced in (not bootstrap) *)
  su_present : bool }.                        (* blob still readable *)

Record st := { log : list ev; arts : list (N * summ) }.

Fixpoint art_get (a : N) (m : list (N * summ)) : option summ :=
  match m with [] => None | (k, v) :: r => if k =? a then Some v else art_get a r end.
Definition art_read (s : st) (a : N) : option summ :=
  match art_get a (arts s) with Some v => if su_present v then Some v else None | None => None end.

Definition maxN (l : list N) : N := fold_right N.max 0 l.
Definition next_seq (l : list ev) : N := match rev l with [] => 0 | e :: _ => eseq e + 1 end.
Definition fresh_id (l : list ev) : N := maxN (map eid l) + 1.
Definition job_ids (l : list ev) : list N :=
  flat_map (fun e => match ebody e with BJobSpawned j _ _ => [j] | _ => [] end) l.
Definition fresh_job (l : list ev) : N := maxN (job_ids l) + 1.
Definition fresh_art (s : st) : N := maxN (map fst (arts s)) + 1.

Definition append (s : st) (b : body) : st :=
  {| log := log s ++ [{| eseq := next_seq (log s); eid := fresh_id (log s); ebody := b |}]; arts := arts s |}.
Definition last_id (s : st) : N := match rev (log s) with [] => 0 | e :: _ => eid e end.
Definition put_art (s : st) (v : summ) : st * N :=
  let a := fresh_art s in ({| log := log s; arts := arts s ++ [(a, v)] |}, a).

(* ---------- manual checkpoint ---------- *)
(* error codes: 1 no summary given, 2 both selectors, 3 no messages, 4 to_message_id not found,
   5 to_seq not a message boundary, 6 stride 0, 7 stride not reached, 8 artifact unreadable,
   9 artifact to_seq mismatch, 10 invalid_stride (query side), 11 out of range *)
Inductive res (A : Type) := Ok (a : A) | Err (e : N).
Arguments Ok {A} a. Arguments Err {A} e.

Record manual_req := { mr_md : option N;       (* Some 0: ordinary markdown, Some 1: legacy placeholder markdown *)
                       mr_art : option N; mr_to_mid : option N; mr_to_seq : option N; mr_stride : option N }.

Definition manual_target (K : consts) (r : manual_req) (l : list ev) : res (N * N * N) :=   (* to_seq, to_mid, rule *)
  let ms := msgs l in
  match mr_md r, mr_art r with
  | None, None => Err 1
  | _, _ =>
    match mr_to_mid r, mr_to_seq r with
    | Some _, Some _ => Err 2
    | om, os =>
      match ms with
      | [] => Err 3
      | _ =>
        match om, os with
        | Some m, _ => match find (fun p => snd p =? m) ms with
                       | Some (s, _) => Ok (s, m, rule_manual) | None => Err 4 end
        | None, Some q => match find (fun p => fst p =? q) ms with
                          | Some (_, m) => Ok (q, m, rule_manual) | None => Err 5 end
        | None, None =>
          let stride := match mr_stride r with Some x => x | None => k_default_stride K end in
          if stride =? 0 then Err 6
          else let target := (nlen ms / stride) * stride in
               if target =? 0 then Err 7
               else match nth_error ms (N.to_nat (target - 1)) with
                    | Some (s, m) => Ok (s, m, rule_stride stride) | None => Err 11 end
        end
      end
    end
  end.

Definition manual (K : consts) (r : manual_req) (s : st) : st * res (N * N * N * N * N) :=  (* ckid art to_seq to_mid rule *)
  match manual_target K r (log s) with
  | Err e => (s, Err e)
  | Ok (ts, tm, rule) =>
    let base := option_map ck_art (fst (best_lt_truth (ckpts (log s)) ts)) in
    match mr_art r with
    | Some a =>
      match art_read s a with
      | None => (s, Err 8)
      | Some v => if su_to_seq v =? ts
                  then let s' := append s (BCkpt rule a ts (Some tm)) in (s', Ok (last_id s', a, ts, tm, rule))
                  else (s, Err 9)
      end
    | None =>
      let kind := match mr_md r with Some 1 => 1 | _ => 0 end in
      let '(s1, a) := put_art s {| su_to_seq := ts; su_to_mid := Some tm; su_base := base; su_note := 0;
                                   su_kind := kind; su_slice := []; su_base_used := false; su_present := true |} in
      let s2 := append s1 (BCkpt rule a ts (Some tm)) in
      (s2, Ok (last_id s2, a, ts, tm, rule))
    end
  end.

(* ---------- auto: spawn / run / end ---------- *)
Definition msg_full (l : list ev) : list (N * N * (N * N)) :=     (* seq, id, (actor, content) *)
  flat_map (fun e => match ebody e with BMsg a c => [(eseq e, eid e, (a, c))] | _ => [] end) l.
(* upper_bound_message_seq on the seq-sorted message list: number of messages with seq <= target *)
Definition upper_bound (ms : list (N * N * (N * N))) (target : N) : nat :=
  length (filter (fun m => fst (fst m) <=? target) ms).

(* base selection for one planned cut: bounded cache look-up on the CURRENT stream first, the job's own
   replay snapshot `snap` only when the cache has nothing at or below to_seq - 1 *)
Definition select_base (K : consts) (cur snap : list ev) (to_seq : N) : option ck * N :=
  if to_seq <=? 1 then (None, 0)
  else match ck_lookup K (ckpts cur) (to_seq - 1) with
       | Some (Some c) => (Some c, ck_to c)
       | _ => best_lt_truth (ckpts snap) to_seq
       end.

(* one planned cut: Ok (state', created) or the error that fails the job (20 not found, 21 mismatch) *)
Definition run_cut (K : consts) (snap : list ev) (stride : N) (s : st) (p : plan) : res (st * created) :=
  let ms := msg_full snap in
  let '(b, base_to) := select_base K (log s) snap (pl_seq p) in
  let base_id := option_map ck_art b in
  let '(bootstrap, note, used) :=
    match base_id with
    | None => (true, 0, false)
    | Some a => match art_read s a with
                | Some v => if su_kind v =? 1 then (true, 1, false) else (false, 0, true)
                | None => (true, 2, false) end
    end in
  let start_idx := upper_bound ms (if bootstrap then 0 else base_to) in
  let end_idx := upper_bound ms (pl_seq p) in
  match nth_error ms (end_idx - 1) with
  | None => Err 20
  | Some (ls, lid, _) =>
    if (ls =? pl_seq p) && (lid =? pl_mid p) then
      let slice := map snd (skipn start_idx (firstn end_idx ms)) in
      let '(s1, a) := put_art s {| su_to_seq := pl_seq p; su_to_mid := Some (pl_mid p); su_base := base_id;
                                   su_note := note; su_kind := 2; su_slice := slice; su_base_used := used;
                                   su_present := true |} in
      let s2 := append s1 (BCkpt (rule_stride stride) a (pl_seq p) (Some (pl_mid p))) in
      Ok (s2, {| cr_ck := last_id s2; cr_art := a; cr_seq := pl_seq p; cr_mid := pl_mid p |})
    else Err 21
  end.

Fixpoint run_cuts (K : consts) (snap : list ev) (stride : N) (s : st) (ps : list plan) (acc : list created)
  : st * list created * option N :=
  match ps with
  | [] => (s, acc, None)
  | p :: r => match run_cut K snap stride s p with
              | Ok (s', c) => run_cuts K snap stride s' r (acc ++ [c])
              | Err e => (s, acc, Some e)
              end
  end.

(* planned.sort_by(to_seq, then to_message_id) — insertion sort, stable *)
Definition plan_leb (a b : plan) : bool :=
  (pl_seq a <? pl_seq b) || ((pl_seq a =? pl_seq b) && (pl_mid a <=? pl_mid b)).
Fixpoint plan_insert (p : plan) (l : list plan) : list plan :=
  match l with [] => [p] | q :: r => if plan_leb p q then p :: l else q :: plan_insert p r end.
Definition plan_sort (l : list plan) : list plan := fold_right plan_insert [] l.

Definition run_job (K : consts) (jid stride : N) (planned : list plan) (s : st) : st * list created * option N :=
  let '(s1, made, err) := run_cuts K (log s) stride s (plan_sort planned) [] in
  (append s1 (BJobEnded jid (match err with None => 0 | Some _ => 1 end) made), made, err).

Record auto_resp := { ar_status : N;      (* 0 noop 1 spawned 2 completed 3 failed *)
                      ar_stride : N; ar_count : N; ar_job : option N; ar_planned : list plan;
                      ar_result : list created; ar_err : option N }.

Definition opt_or (o : option N) (d : N) : N := match o with Some x => x | None => d end.
Definition opt_orb (o : option bool) (d : bool) : bool := match o with Some x => x | None => d end.

Definition auto_spawn (K : consts) (stride maxnew : N) (dry : bool) (s : st) : st * auto_resp :=
  let planned := plan_cuts K stride maxnew (log s) in
  let base := {| ar_status := 0; ar_stride := stride; ar_count := nlen (msgs (log s)); ar_job := None;
                 ar_planned := planned; ar_result := []; ar_err := None |} in
  match planned with
  | [] => (s, base)
  | _ => if dry then (s, base)
         else let j := fresh_job (log s) in
              (append s (BJobSpawned j planned stride),
               {| ar_status := 1; ar_stride := stride; ar_count := ar_count base; ar_job := Some j;
                  ar_planned := planned; ar_result := []; ar_err := None |})
  end.

Definition auto (K : consts) (ostride omax : option N) (odry : option bool) (s : st) : st * res auto_resp :=
  let stride := opt_or ostride (k_default_stride K) in
  if stride =? 0 then (s, Err 10)
  else
    let maxnew := clamp (k_maxnew_lo K) (k_maxnew_hi K) (opt_or omax 1) in
    let '(s1, r) := auto_spawn K stride maxnew (opt_orb odry false) s in
    match ar_job r with
    | None => (s1, Ok r)
    | Some j =>
      let '(s2, made, err) := run_job K j stride (ar_planned r) s1 in
      (s2, Ok {| ar_status := match err with None => 2 | Some _ => 3 end; ar_stride := stride;
                 ar_count := ar_count r; ar_job := Some j; ar_planned := ar_planned r;
                 ar_result := match err with None => made | Some _ => [] end; ar_err := err |})
    end.

(* ---------- scheduler ---------- *)
Fixpoint inflight_scan (rev_tail : list ev) (ended : list N) : option N :=
  match rev_tail with
  | [] => None
  | e :: r => match ebody e with
              | BJobEnded j _ _ => inflight_scan r (j :: ended)
              | BJobSpawned j _ _ => if existsb (N.eqb j) ended then inflight_scan r ended else Some j
              | _ => inflight_scan r ended
              end
  end.
Definition find_inflight (K : consts) (l : list ev) : option N :=
  inflight_scan (rev (lastn (k_inflight_window K) l)) [].

Record sched_resp := { sr_decision : N;   (* 0 noop 1 dry_run 2 skipped_inflight 3 scheduled 4 completed 5 failed *)
                       sr_decision_id : option N; sr_exec : bool; sr_stride : N; sr_maxnew : N; sr_block : bool;
                       sr_count : N; sr_planned : list plan; sr_job : option N; sr_result : list created;
                       sr_err : option N }.

Definition sched (K : consts) (ostride omax : option N) (oblock oexec odry : option bool) (s : st)
  : st * res sched_resp :=
  let stride := opt_or ostride (k_default_stride K) in
  if stride =? 0 then (s, Err 10)
  else
    let maxnew := clamp (k_maxnew_lo K) (k_maxnew_hi K) (opt_or omax 1) in
    let block := opt_orb oblock true in
    let exec := opt_orb oexec true in
    let dry := opt_orb odry false in
    let planned := plan_cuts K stride maxnew (log s) in
    let count := nlen (msgs (log s)) in
    let mk d did job result err :=
      {| sr_decision := d; sr_decision_id := did; sr_exec := exec; sr_stride := stride; sr_maxnew := maxnew;
         sr_block := block; sr_count := count; sr_planned := planned; sr_job := job; sr_result := result;
         sr_err := err |} in
    match planned with
    | [] => (s, Ok (mk 0 None None [] None))
    | _ =>
      if dry then (s, Ok (mk 1 None None [] None))
      else
        match (if block then find_inflight K (log s) else None) with
        | Some _ =>
          let s1 := append s (BDecided 2 None planned stride maxnew block exec count) in
          (s1, Ok (mk 2 (Some (last_id s1)) None [] None))
        | None =>
          let '(s1, r) := auto_spawn K stride maxnew false s in
          match ar_job r with
          | None => (s1, Ok (mk 0 None None [] None))
          | Some j =>
            let s2 := append s1 (BDecided 3 (Some j) planned stride maxnew block exec count) in
            let did := Some (last_id s2) in
            if exec then
              let '(s3, made, err) := run_job K j stride planned s2 in
              (s3, Ok (mk (match err with None => 4 | Some _ => 5 end) did (Some j)
                          (match err with None => made | Some _ => [] end) err))
            else (s2, Ok (mk 3 did (Some j) [] None))
          end
        end
    end.

(* ---------- status ---------- *)
Definition last_decided (l : list ev) : option ev :=
  find (fun e => match ebody e with BDecided _ _ _ _ _ _ _ _ => true | _ => false end) (rev l).
Definition last_job_ended (l : list ev) : option ev :=
  find (fun e => match ebody e with BJobEnded _ _ _ => true | _ => false end) (rev l).

Record status_resp := { ss_stride : N; ss_count : N; ss_latest : option ck; ss_next : option plan;
                        ss_inflight : option N; ss_decision : option ev; ss_outcome : option ev }.

Definition status (K : consts) (ostride : option N) (s : st) : res status_resp :=
  let stride := opt_or ostride (k_default_stride K) in
  if stride =? 0 then Err 10
  else
    let l := log s in
    Ok {| ss_stride := stride; ss_count := nlen (msgs l);
          ss_latest := match ck_lookup K (ckpts l) U64MAX with
                       | Some (Some c) => Some c
                       | _ => fst (best_lt_truth (ckpts l) (U64MAX + 1))
                       end;
          ss_next := option_map to_plan (find (fun c => negb (cp_done c)) (cut_points K stride (k_plan_limit K) l));
          ss_inflight := find_inflight K l;
          ss_decision := last_decided l; ss_outcome := last_job_ended l |}.

(* ---------- operations of a case ---------- *)
Inductive op :=
| OMsg (actor content : N)
| OOther
| OManual (r : manual_req)
| OCut (stride limit : option N)
| OStatus (stride : option N)
| OAuto (stride maxnew : option N) (dry : option bool)
| OSched (stride maxnew : option N) (block exec dry : option bool)
| ODropArt (a : N).

(* ---------- observation encoding (flat list N, mirrored by harness/src/bin/c09.rs) ---------- *)
Definition enc_opt (o : option N) : list N := match o with None => [0] | Some x => [1; x] end.
Definition enc_bool (b : bool) : list N := [if b then 1 else 0].
Definition enc_plan (p : plan) : list N := [pl_ord p; pl_seq p; pl_mid p].
Definition enc_plans (l : list plan) : list N := nlen l :: concat (map enc_plan l).
Definition enc_created (c : created) : list N := [cr_ck c; cr_art c; cr_seq c; cr_mid c].
Definition enc_createds (l : list created) : list N := nlen l :: concat (map enc_created l).
Definition enc_cut (c : cutpt) : list N := [cp_ord c; cp_seq c; cp_mid c] ++ enc_bool (cp_done c) ++ enc_opt (cp_ck c).

Definition enc_body (b : body) : list N :=
  match b with
  | BMsg a c => [1; a; c]
  | BCkpt r a t m => [2; r; a; t] ++ enc_opt m
  | BJobSpawned j p s => [3; j; s] ++ enc_plans p
  | BJobEnded j stt made => [4; j; stt] ++ enc_createds made
  | BDecided d j p s m bl ex c => [5; d] ++ enc_opt j ++ enc_plans p ++ [s; m] ++ enc_bool bl ++ enc_bool ex ++ [c]
  | BOther => [0]
  end.
Definition enc_ev (e : ev) : list N := eseq e :: eid e :: enc_body (ebody e).
Definition enc_ev_noid (e : ev) : list N := eseq e :: enc_body (ebody e).
(* what the summary records about the messages it was built from (AutoSummaryAccumulator): the per-actor message
   counts, most frequent first, ties by actor, first 6 (`- delta_actors:`), and the last 12 messages (`## Recent Delta
   Highlights`: actor + first non-blank line of the message, which the harness maps back to the content token) *)
Fixpoint bump (a : N) (h : list (N * N)) : list (N * N) :=
  match h with
  | [] => [(a, 1)]
  | (b, c) :: r => if b =? a then (b, c + 1) :: r else (b, c) :: bump a r
  end.
Definition histo (sl : list (N * N)) : list (N * N) := fold_left (fun h m => bump (fst m) h) sl [].
Definition hist_leb (x y : N * N) : bool := (snd y <? snd x) || ((snd x =? snd y) && (fst x <=? fst y)).
Fixpoint hist_insert (x : N * N) (l : list (N * N)) : list (N * N) :=
  match l with [] => [x] | y :: r => if hist_leb x y then x :: l else y :: hist_insert x r end.
Definition hist_sort (l : list (N * N)) : list (N * N) := fold_right hist_insert [] l.
Definition k_actors_shown : nat := 6.
Definition k_highlights : N := 12.
Definition enc_pairs (l : list (N * N)) : list N := nlen l :: concat (map (fun p => [fst p; snd p]) l).
Definition delta_actors (sl : list (N * N)) : list (N * N) := firstn k_actors_shown (hist_sort (histo sl)).
Definition delta_highlights (sl : list (N * N)) : list (N * N) := lastn k_highlights sl.

Definition enc_summ (kv : N * summ) : list N :=
  let v := snd kv in
  fst kv :: su_to_seq v :: enc_opt (su_to_mid v) ++ enc_opt (su_base v)
  ++ [su_note v; (if su_kind v =? 2 then 1 else 0); nlen (su_slice v)]
  ++ enc_pairs (delta_actors (su_slice v)) ++ enc_pairs (delta_highlights (su_slice v)).

Definition enc_cut_resp (K : consts) (ostride olim : option N) (s : st) : list N :=
  let stride := opt_or ostride (k_default_stride K) in
  if stride =? 0 then [1; 10]
  else let cps := cut_points K stride (opt_or olim 1) (log s) in
       [0; stride; nlen (msgs (log s)); rule_stride stride; nlen cps] ++ concat (map enc_cut cps).

Definition enc_ck (c : ck) : list N := [ck_id c; ck_rule c; ck_art c; ck_to c] ++ enc_opt (ck_mid c).
Definition enc_optl {A} (f : A -> list N) (o : option A) : list N := match o with None => [0] | Some x => 1 :: f x end.

Definition enc_status (r : res status_resp) : list N :=
  match r with
  | Err e => [1; e]
  | Ok x => [0; ss_stride x; ss_count x] ++ enc_optl enc_ck (ss_latest x) ++ enc_optl enc_plan (ss_next x)
            ++ enc_opt (ss_inflight x) ++ enc_optl enc_ev_noid (ss_decision x) ++ enc_optl enc_ev_noid (ss_outcome x)
  end.

Definition enc_auto (r : res auto_resp) : list N :=
  match r with
  | Err e => [1; e]
  | Ok x => [0; ar_status x; ar_stride x; ar_count x] ++ enc_opt (ar_job x) ++ enc_plans (ar_planned x)
            ++ enc_createds (ar_result x) ++ enc_opt (ar_err x)
  end.

Definition enc_sched (r : res sched_resp) : list N :=
  match r with
  | Err e => [1; e]
  | Ok x => [0; sr_decision x] ++ enc_opt (sr_decision_id x) ++ enc_bool (sr_exec x)
            ++ [sr_stride x; sr_maxnew x] ++ enc_bool (sr_block x) ++ [sr_count x]
            ++ enc_plans (sr_planned x) ++ enc_opt (sr_job x) ++ enc_createds (sr_result x) ++ enc_opt (sr_err x)
  end.

Definition enc_manual (r : res (N * N * N * N * N)) : list N :=
  match r with
  | Err e => [1; e]
  | Ok (c, a, ts, tm, rule) => [0; c; a; ts; tm; rule]
  end.

Definition drop_art (a : N) (s : st) : st :=
  {| log := log s;
     arts := map (fun kv => if fst kv =? a
                            then (fst kv, {| su_to_seq := su_to_seq (snd kv); su_to_mid := su_to_mid (snd kv);
                                             su_base := su_base (snd kv); su_note := su_note (snd kv);
                                             su_kind := su_kind (snd kv); su_slice := su_slice (snd kv);
                                             su_base_used := su_base_used (snd kv); su_present := false |})
                            else kv) (arts s) |}.

Definition step (K : consts) (s : st) (o : op) : st * list N :=
  match o with
  | OMsg a c => (append s (BMsg a c), [])
  | OOther => (append s BOther, [])
  | OManual r => let '(s', x) := manual K r s in (s', enc_manual x)
  | OCut st lim => (s, enc_cut_resp K st lim s)
  | OStatus st => (s, enc_status (status K st s))
  | OAuto st mx d => let '(s', x) := auto K st mx d s in (s', enc_auto x)
  | OSched st mx b e d => let '(s', x) := sched K st mx b e d s in (s', enc_sched x)
  | ODropArt a => (drop_art a s, [])
  end.

Fixpoint run_ops (K : consts) (s : st) (ops : list op) (acc : list N) : st * list N :=
  match ops with
  | [] => (s, acc)
  | o :: r => let '(s', out) := step K s o in run_ops K s' r (acc ++ out)
  end.

(* a thread right after ensure_default: one continuity_created frame, seq 0 *)
Definition st0 : st := {| log := [{| eseq := 0; eid := 1; ebody := BOther |}]; arts := [] |}.

Definition observe (K : consts) (ops : list op) : list N :=
  let '(s, out) := run_ops K st0 ops [] in
  out ++ nlen (log s) :: concat (map enc_ev (log s)) ++ nlen (arts s) :: concat (map enc_summ (arts s)).

Record case := { c_consts : consts; c_ops : list op; c_expect : list N }.
Definition check_case (c : case) : bool := lN_eqb (observe (c_consts c) (c_ops c)) (c_expect c).
Definition model_obs (c : case) : list N := observe (c_consts c) (c_ops c).

(* ====================================================================================================== *)
(* ---------- concurrent schedule / auto calls ----------
   No lock is held across a call: every read (plan, in-flight scan, replay snapshot, base look-up) and every append
   (one frame under the seq mutex) is a separate atomic step of the calling actor; the system interleaves them. *)
Record call := { c_sched : bool;               (* true: compaction_auto_schedule_v1, false: compaction_auto_v1 *)
                 c_stride : N; c_maxnew : N;   (* resolved: stride <> 0, max_new clamped *)
                 c_block : bool; c_exec : bool }.

(* the read half of run_cut: the summary to write for planned cut p, or the error that fails the job *)
Definition cut_read (K : consts) (snap : list ev) (s : st) (p : plan) : res summ :=
  let ms := msg_full snap in
  let '(b, base_to) := select_base K (log s) snap (pl_seq p) in
  let base_id := option_map ck_art b in
  let '(bootstrap, note, used) :=
    match base_id with
    | None => (true, 0, false)
    | Some a => match art_read s a with
                | Some v => if su_kind v =? 1 then (true, 1, false) else (false, 0, true)
                | None => (true, 2, false) end
    end in
  let start_idx := upper_bound ms (if bootstrap then 0 else base_to) in
  let end_idx := upper_bound ms (pl_seq p) in
  match nth_error ms (end_idx - 1) with
  | None => Err 20
  | Some (ls, lid, _) =>
    if (ls =? pl_seq p) && (lid =? pl_mid p) then
      Ok {| su_to_seq := pl_seq p; su_to_mid := Some (pl_mid p); su_base := base_id;
            su_note := note; su_kind := 2; su_slice := map snd (skipn start_idx (firstn end_idx ms));
            su_base_used := used; su_present := true |}
    else Err 21
  end.

Inductive astate :=
| AStart (c : call)                                             (* schedule: plan *)
| ACheck (c : call) (plan1 : list plan) (count : N)             (* schedule: in-flight scan *)
| ASkip (c : call) (plan1 : list plan) (count : N)              (* append decided(skipped_inflight) *)
| APlan (c : call) (plan1 : list plan) (count : N)              (* spawn_job: plan (again) *)
| ASpawn (c : call) (plan1 plan2 : list plan) (count count2 : N)   (* append job_spawned *)
| ADecide (c : call) (plan1 : list plan) (count j : N)          (* append decided(scheduled) *)
| ASnap (c : call) (todo : list plan) (j : N)                   (* run_spawned_job: replay *)
| ACut (c : call) (j : N) (snap : list ev) (todo : list plan) (made : list created)   (* read half of the next cut *)
| AWrite (c : call) (j : N) (snap : list ev) (p : plan) (v : summ) (todo : list plan) (made : list created)  (* append checkpoint *)
| AEnd (c : call) (j status : N) (made : list created) (err : option N)   (* append job_ended *)
| AMsgStart (ms : list (N * N))                                (* a client appending messages (actor, content) meanwhile *)
| AMsgs (ms : list (N * N))                                    (* append the next message *)
| ADone (resp : list N).

(* what an actor is asked to do *)
Inductive aspec := SCall (c : call) | SMsgs (ms : list (N * N)).
Definition start_of (x : aspec) : astate := match x with SCall c => AStart c | SMsgs ms => AMsgStart ms end.

Definition enc_call_resp (decision : N) (job : option N) (made : list created) (err : option N) : list N :=
  [decision] ++ enc_opt job ++ enc_createds made ++ enc_opt err.

Definition decided_body (c : call) (d : N) (j : option N) (plan1 : list plan) (count : N) : body :=
  BDecided d j plan1 (c_stride c) (c_maxnew c) (c_block c) (c_exec c) count.

(* one atomic step of one actor; response codes: schedule 0 noop 2 skipped 3 scheduled 4 completed 5 failed,
   auto 10 noop 12 completed 13 failed *)
Definition astep_gen (fx : bool) (K : consts) (s : st) (a : astate) : st * astate :=
  match a with
  | AStart c =>
    let count := nlen (msgs (log s)) in
    if c_sched c then
      let plan1 := plan_cuts K (c_stride c) (c_maxnew c) (log s) in
      match plan1 with
      | [] => (s, ADone (enc_call_resp 0 None [] None))
      | _ => (s, ACheck c plan1 count)
      end
    else (s, APlan c [] count)
  | ACheck c plan1 count =>
    match (if c_block c then find_inflight K (log s) else None) with
    | Some _ => (s, ASkip c plan1 count)
    | None => (s, APlan c plan1 count)
    end
  | ASkip c plan1 count =>
    (append s (decided_body c 2 None plan1 count), ADone (enc_call_resp 2 None [] None))
  | APlan c plan1 count =>
    let plan2 := plan_cuts K (c_stride c) (c_maxnew c) (log s) in
    match plan2 with
    | [] => (s, ADone (enc_call_resp (if c_sched c then 0 else 10) None [] None))
    | _ => (s, ASpawn c plan1 plan2 count (nlen (msgs (log s))))
    end
  | ASpawn c plan1 plan2 count count2 =>
    let j := fresh_job (log s) in
    let s1 := append s (BJobSpawned j plan2 (c_stride c)) in
    (* fx: the decision frame, the response and the job use the plan the job was spawned with (and its message
       count); before the fix they used the scheduler's own earlier plan *)
    if c_sched c then (s1, ADecide c (if fx then plan2 else plan1) (if fx then count2 else count) j)
    else (s1, ASnap c plan2 j)
  | ADecide c plan1 count j =>
    let s1 := append s (decided_body c 3 (Some j) plan1 count) in
    if c_exec c then (s1, ASnap c plan1 j) else (s1, ADone (enc_call_resp 3 (Some j) [] None))
  | ASnap c todo j => (s, ACut c j (log s) (plan_sort todo) [])
  | ACut c j snap todo made =>
    match todo with
    | [] => (s, AEnd c j 0 made None)
    | p :: rest => match cut_read K snap s p with
                   | Ok v => (s, AWrite c j snap p v rest made)
                   | Err e => (s, AEnd c j 1 made (Some e))
                   end
    end
  | AWrite c j snap p v rest made =>
    let '(s1, a) := put_art s v in
    let s2 := append s1 (BCkpt (rule_stride (c_stride c)) a (pl_seq p) (Some (pl_mid p))) in
    (s2, ACut c j snap rest (made ++ [{| cr_ck := last_id s2; cr_art := a; cr_seq := pl_seq p; cr_mid := pl_mid p |}]))
  | AEnd c j status made err =>
    (append s (BJobEnded j status made),
     ADone (enc_call_resp (match err with None => 4 | Some _ => 5 end + (if c_sched c then 0 else 8)) (Some j)
                          (match err with None => made | Some _ => [] end) err))
  | AMsgStart ms => (s, match ms with [] => ADone [] | _ => AMsgs ms end)
  | AMsgs ms => match ms with
                | [] => (s, ADone [])
                | (a, c) :: rest => (append s (BMsg a c), match rest with [] => ADone [] | _ => AMsgs rest end)
                end
  | ADone r => (s, ADone r)
  end.

Definition astep := astep_gen true.
Definition astep_unfixed := astep_gen false.

Definition is_append (a : astate) : bool :=
  match a with ASkip _ _ _ | ASpawn _ _ _ _ _ | ADecide _ _ _ _ | AWrite _ _ _ _ _ _ _ | AEnd _ _ _ _ _ | AMsgs _ => true | _ => false end.
Definition is_done (a : astate) : bool := match a with ADone _ => true | _ => false end.

(* where an actor thread can be preempted by the controlled scheduler: in front of the seq mutex (every append)
   and, in a schedule call, between the in-flight scan and the spawn_job call (hook compact.sched.before_spawn) *)
Definition is_park (a : astate) : bool :=
  is_append a || match a with APlan c _ _ => c_sched c | _ => false end.

(* steps up to the next park *)
Fixpoint reads (K : consts) (fuel : nat) (s : st) (a : astate) : st * astate :=
  match fuel with
  | O => (s, a)
  | S f => if is_park a || is_done a then (s, a) else let '(s', a') := astep K s a in reads K f s' a'
  end.
(* one scheduling quantum: the step the actor is parked in front of (if any), then everything up to its next park *)
Definition quantum (K : consts) (s : st) (a : astate) : st * astate :=
  if is_park a then let '(s', a') := astep K s a in reads K 8 s' a' else reads K 8 s a.

Fixpoint set_nth {A} (n : nat) (x : A) (l : list A) : list A :=
  match l, n with
  | [], _ => []
  | _ :: r, O => x :: r
  | y :: r, S n' => y :: set_nth n' x r
  end.

Fixpoint run_sched (K : consts) (s : st) (actors : list astate) (schedule : list N) : st * list astate :=
  match schedule with
  | [] => (s, actors)
  | i :: rest => match nth_error actors (N.to_nat i) with
                 | None => run_sched K s actors rest
                 | Some a => let '(s', a') := quantum K s a in run_sched K s' (set_nth (N.to_nat i) a' actors) rest
                 end
  end.

(* the finest interleaving: one atomic step of the picked actor at a time, for any step function *)
Fixpoint run_fine (step : st -> astate -> st * astate) (s : st) (actors : list astate) (schedule : list N) : st * list astate :=
  match schedule with
  | [] => (s, actors)
  | i :: rest => match nth_error actors (N.to_nat i) with
                 | None => run_fine step s actors rest
                 | Some a => let '(s', a') := step s a in run_fine step s' (set_nth (N.to_nat i) a' actors) rest
                 end
  end.

Definition enc_actor (a : astate) : list N := match a with ADone r => 1 :: r | _ => [0] end.

(* a concurrent case: sequential prefix, then the calls driven by a schedule of quanta *)
Definition observe_conc (K : consts) (prefix : list op) (calls : list aspec) (schedule : list N) : list N :=
  let '(s0, _) := run_ops K st0 prefix [] in
  let '(s, actors) := run_sched K s0 (map start_of calls) schedule in
  concat (map enc_actor actors)
  ++ nlen (log s) :: concat (map enc_ev (log s)) ++ nlen (arts s) :: concat (map enc_summ (arts s)).

Record ccase := { cc_consts : consts; cc_prefix : list op; cc_calls : list aspec; cc_schedule : list N; cc_expect : list N }.
Definition check_ccase (c : ccase) : bool :=
  lN_eqb (observe_conc (cc_consts c) (cc_prefix c) (cc_calls c) (cc_schedule c)) (cc_expect c).
Definition model_cobs (c : ccase) : list N := observe_conc (cc_consts c) (cc_prefix c) (cc_calls c) (cc_schedule c).
