(* C08 — compiled context is a pure function of thread truth up to the cut point.
   Executable model of the context compiler (no proofs here; Proofs/CompileProofs.v):
     cut point            continuities.rs  resolve_context_compile_cutpoint_full / resolve_cutpoint_from_tail
     message selection    context_compiler.rs  select_recent_messages / select_recent_messages_after_seq
     reply lookup         context_compiler.rs  ended_runs_by_message_id + aggregate_session_output_text
     checkpoint selection continuities.rs  latest_compaction_checkpoint_for_compile_v1 /
                          hierarchical_compaction_checkpoints_for_compile_v1 (halving rule)
     strategy + decision  session.rs  compile_context_bundle_for_run
     input producers      continuities.rs  load_context_compile_input_recent_messages_v1 (mr tail, seek window,
                          full replay) as "any admissible window of the projected stream" (see `admissible`)

   Identifiers: a frame id is represented by the seq of the frame that carries it (unique in a valid
   stream, C01); run ids and artifact ids are first-appearance ordinals; a reply text is a code with
   0 = the empty string (the harness maps distinct strings to distinct codes).
   `fixed` selects the checkpoint visibility rule: false = the code as it is (`to_seq <= cut` only;
   S9: a checkpoint frame appended after the cut is visible), true = the repaired rule the property
   asks for (the frame's own seq must also be at or before the cut).  The case files evaluate the
   faithful rule (`code_params`); the theorems cover both. *)
From RipV Require Import Base.Prelude.

Inductive body :=
| BMsg                                  (* continuity_message_appended *)
| BRunEnded (run msg : N)               (* continuity_run_ended {run_session_id, message_id} *)
| BCkpt (cum : bool) (to_seq art : N)   (* continuity_compaction_checkpoint_created {summary_kind = cumulative_v1?, to_seq, summary_artifact_id} *)
| BOther.                               (* every other continuity frame *)
Record frame := { fseq : N; fb : body }.
Definition log := list frame.

Definition is_msg (f : frame) : bool := match fb f with BMsg => true | _ => false end.
Definition is_run_ended (f : frame) : bool := match fb f with BRunEnded _ _ => true | _ => false end.
Definition is_ckpt (f : frame) : bool := match fb f with BCkpt _ _ _ => true | _ => false end.

(* C01's statement for one stream: seq = position *)
Fixpoint contig_from (b : N) (l : log) : bool :=
  match l with [] => true | f :: r => (fseq f =? b) && contig_from (b + 1) r end.
Definition valid_log (l : log) : bool := contig_from 0 l.

(* a frame can only name an earlier frame (ids are fresh uuids): run_ended after its message,
   checkpoint after the message at its to_seq *)
Definition names_earlier (f : frame) : bool :=
  match fb f with
  | BRunEnded _ m => m <? fseq f
  | BCkpt _ t _ => t <? fseq f
  | _ => true
  end.
Definition wf_refs (l : log) : bool := forallb names_earlier l.

(* ------------------------------------------------------------------ cut point *)
Definition head_seq (l : log) : N := last (map fseq l) 0.    (* events.last().seq or default *)

Fixpoint first_msg_seq (l : log) : option N :=
  match l with [] => None | f :: r => if is_msg f then Some (fseq f) else first_msg_seq r end.

(* the loop of resolve_context_compile_cutpoint_full: (message_seq, next_message_seq) *)
Fixpoint cut_scan (a : N) (l : log) : option (N * option N) :=
  match l with
  | [] => None
  | f :: r => if is_msg f && (fseq f =? a) then Some (fseq f, first_msg_seq r) else cut_scan a r
  end.

Definition cut_of (head : N) (r : N * option N) : N :=
  N.max (match snd r with Some n => n - 1 | None => head end) (fst r).

Definition cut_point (l : log) (a : N) : option N := option_map (cut_of (head_seq l)) (cut_scan a l).

(* ------------------------------------------------------------------ message selection *)
(* for event in events.iter().rev() { if !p(event) {continue}; push; if len >= limit {break} }; reverse *)
Fixpoint take_rev (p : frame -> bool) (rl : list frame) (limit : nat) (acc : list frame) {struct rl} : list frame :=
  match rl with
  | [] => acc
  | f :: r =>
    match limit with
    | O => acc
    | S k => if p f then take_rev p r k (f :: acc) else take_rev p r limit acc
    end
  end.

Definition sel_pred (from : N) (after : option N) (f : frame) : bool :=
  (fseq f <=? from) && (match after with Some a => negb (fseq f <=? a) | None => true end) && is_msg f.

Definition select_recent (evs : log) (from : N) (limit : nat) : list frame :=
  take_rev (sel_pred from None) (rev evs) limit [].
Definition select_recent_after (evs : log) (from after : N) (limit : nat) : list frame :=
  take_rev (sel_pred from (Some after)) (rev evs) limit [].

(* ------------------------------------------------------------------ replies *)
(* ended_runs_by_message_id: HashMap insert in stream order, `break` at the first seq > from_seq;
   the newest binding is at the front of the association list *)
Fixpoint ended_runs (from : N) (l : log) (m : list (N * N)) : list (N * N) :=
  match l with
  | [] => m
  | f :: r =>
    if from <? fseq f then m
    else match fb f with
         | BRunEnded run msg => ended_runs from r ((msg, run) :: m)
         | _ => ended_runs from r m
         end
  end.
Fixpoint lookup (k : N) (m : list (N * N)) : option N :=
  match m with [] => None | (k', v) :: r => if k =? k' then Some v else lookup k r end.

(* aggregate_session_output_text: snapshot wins iff it is readable, non-empty and holds only session
   frames of that run; otherwise the truth log's session stream *)
Record runinfo := { ri_snap : N (* 0 absent/unreadable, 1 valid, 2 invalid *); ri_snap_text : N; ri_log_text : N }.
Definition run_text (ri : runinfo) : N := if ri_snap ri =? 1 then ri_snap_text ri else ri_log_text ri.
Definition no_run : runinfo := {| ri_snap := 0; ri_snap_text := 0; ri_log_text := 0 |}.
Fixpoint run_lookup (k : N) (m : list (N * runinfo)) : runinfo :=
  match m with [] => no_run | (k', v) :: r => if k =? k' then v else run_lookup k r end.
Definition texts_of (runs : list (N * runinfo)) (run : N) : N := run_text (run_lookup run runs).

Inductive item := ISummary (art to_seq : N) | IUser (mseq : N) | IAssistant (text : N).

Definition reply_items (texts : N -> N) (ended : list (N * N)) (m : N) : list item :=
  match lookup m ended with
  | Some run => if texts run =? 0 then [] else [IAssistant (texts run)]
  | None => []
  end.
Fixpoint msg_items (texts : N -> N) (ended : list (N * N)) (sel : list frame) : list item :=
  match sel with
  | [] => []
  | f :: r => IUser (fseq f) :: reply_items texts ended (fseq f) ++ msg_items texts ended r
  end.

(* ------------------------------------------------------------------ checkpoints *)
Record ckpt := { ck_seq : N; ck_cum : bool; ck_to : N; ck_art : N }.
Definition ckpt_of (f : frame) : option ckpt :=
  match fb f with
  | BCkpt c t a => Some {| ck_seq := fseq f; ck_cum := c; ck_to := t; ck_art := a |}
  | _ => None
  end.
Definition eligible (fixed : bool) (from : N) (c : ckpt) : bool :=
  (ck_to c <=? from) && (if fixed then ck_seq c <=? from else true).

(* the checkpoint frames a compile for cut `from` can see *)
Definition visible (fixed : bool) (from : N) (f : frame) : bool :=
  match ckpt_of f with Some c => eligible fixed from c | None => false end.

(* latest_compaction_checkpoint_for_compile_v1 (truth loop): larger to_seq wins, on a tie the later frame *)
Definition latest_step (fixed : bool) (from : N) (best : option ckpt) (f : frame) : option ckpt :=
  match ckpt_of f with
  | Some c =>
    if eligible fixed from c then
      match best with
      | None => Some c
      | Some b => if ck_to b <=? ck_to c then Some c else Some b
      end
    else best
  | None => best
  end.
Definition latest_any (fixed : bool) (from : N) (l : log) : option ckpt :=
  fold_left (latest_step fixed from) l None.

(* latest_by_to_seq: one entry per to_seq (the frame with the largest own seq), kept sorted by to_seq *)
Fixpoint ins (c : ckpt) (u : list ckpt) : list ckpt :=
  match u with
  | [] => [c]
  | d :: r =>
    if ck_to c <? ck_to d then c :: u
    else if ck_to c =? ck_to d then (if ck_seq c <=? ck_seq d then d :: r else c :: r)
    else d :: ins c r
  end.
Definition unique_step (fixed : bool) (from : N) (u : list ckpt) (f : frame) : list ckpt :=
  match ckpt_of f with
  | Some c => if eligible fixed from c && ck_cum c then ins c u else u
  | None => u
  end.
Definition unique_of (fixed : bool) (from : N) (l : log) : list ckpt :=
  fold_left (unique_step fixed from) l [].

(* binary_search_by(to_seq.cmp(threshold)): Ok(i) => i; Err(0) => none; Err(i) => i-1  — on a list
   sorted by distinct to_seq that is the last entry with to_seq <= threshold *)
Fixpoint find_le (t : N) (u : list ckpt) (best : option ckpt) : option ckpt :=
  match u with
  | [] => best
  | d :: r => if ck_to d <=? t then find_le t r (Some d) else best
  end.

(* the `while selected.len() < max_levels` loop; fuel = max_levels - selected.len() *)
Fixpoint halve (u : list ckpt) (cur : N) (fuel : nat) : list ckpt :=
  match fuel with
  | O => []
  | S k =>
    if cur <=? 1 then []
    else let t := cur / 2 in
      if t =? 0 then []
      else match find_le t u None with
           | None => []
           | Some c => if cur <=? ck_to c then [] else c :: halve u (ck_to c) k
           end
  end.

(* selected is strictly descending by to_seq, so the final sort_by(to_seq) is a reversal *)
Definition hierarchy (fixed : bool) (from : N) (max_levels : nat) (l : log) : list ckpt :=
  match max_levels with
  | O => []
  | S k =>
    let u := unique_of fixed from l in
    match rev u with
    | [] => []
    | latest :: _ => rev (latest :: halve u (ck_to latest) k)
    end
  end.

(* ------------------------------------------------------------------ strategy, decision, bundle *)
Record decision := { d_strategy : N; d_cause : N; d_resets : N; d_ckpts : list ckpt }.
Record bundle := { b_strategy : N; b_from : N; b_anchor : N; b_items : list item }.
(* strategies: 0 recent_messages_v1, 1 summaries_recent_messages_v1, 2 hierarchical_…;
   causes: 0 no_compaction_checkpoint, 1 no_supported_compaction_checkpoint,
           2 unsupported_compaction_summary_kind, 3 compaction_checkpoint, 4 compaction_checkpoint_hierarchy *)

Record params := { p_limit : nat; p_max_refs : nat; p_fixed : bool }.

Definition max_to (h : list ckpt) : N := fold_left N.max (map ck_to h) 0.

(* compile_context_bundle_for_run over (input events, checkpoint source, from_seq, anchor) *)
Definition compile_with (P : params) (texts : N -> N) (evs cks : log) (from anchor : N) : decision * bundle :=
  let h := hierarchy (p_fixed P) from (p_max_refs P) cks in
  let ended := ended_runs from evs [] in
  match h with
  | [] =>
    let cr := match latest_any (p_fixed P) from cks with
              | Some c => if ck_cum c then (1, 0) else (2, 1)
              | None => (0, 0)
              end in
    ({| d_strategy := 0; d_cause := fst cr; d_resets := snd cr; d_ckpts := [] |},
     {| b_strategy := 0; b_from := from; b_anchor := anchor;
        b_items := msg_items texts ended (select_recent evs from (p_limit P)) |})
  | [c] =>
    ({| d_strategy := 1; d_cause := 3; d_resets := 0; d_ckpts := h |},
     {| b_strategy := 1; b_from := from; b_anchor := anchor;
        b_items := ISummary (ck_art c) (ck_to c)
                   :: msg_items texts ended (select_recent_after evs from (ck_to c) (p_limit P)) |})
  | _ =>
    ({| d_strategy := 2; d_cause := 4; d_resets := 0; d_ckpts := h |},
     {| b_strategy := 2; b_from := from; b_anchor := anchor;
        b_items := map (fun c => ISummary (ck_art c) (ck_to c)) h
                   ++ msg_items texts ended (select_recent_after evs from (max_to h) (p_limit P)) |})
  end.

(* full-replay path: the whole stream is the input *)
Definition compile (P : params) (texts : N -> N) (l : log) (anchor : N) : option (decision * bundle) :=
  match cut_point l anchor with
  | None => None             (* empty stream / message not found *)
  | Some from => Some (compile_with P texts l l from anchor)
  end.

(* ------------------------------------------------------------------ the other read paths *)
(* What the mr-sidecar tail scan and the seek windows hand to the compiler: a suffix `evs` of a
   projection of the stream that keeps at least messages and run_ended frames (mr sidecar: exactly
   those; full sidecar: everything), possibly restricted to seq <= from, accepted only when it is the
   whole projection or already holds `limit` messages at or before the cut
   (`tail.complete || message_count >= RECENT_MESSAGES_V1_LIMIT`, `found_messages >= message_limit || scan.complete`). *)
Definition upto (c : N) (l : log) : log := filter (fun f => fseq f <=? c) l.
Definition mr_keep (f : frame) : bool := is_msg f || is_run_ended f.
Definition count_msgs_upto (from : N) (evs : log) : nat :=
  length (filter (fun f => (fseq f <=? from) && is_msg f) evs).

(* tail path: messages of the scanned tail, anchor position, next message or head *)
Definition tail_cut (evs : log) (head a : N) : option N :=
  option_map (cut_of head) (cut_scan a evs).

(* `evs` is what one of the read paths may hand over for the cut `from`: `keep` is the projection of the
   sidecar that was read (it keeps at least messages and run_ended frames), `src` is the thread or the
   thread up to the cut, `evs` a suffix of the projected source that is either all of it or already
   holds `limit` messages at or before the cut. *)
Definition admissible_input (keep : frame -> bool) (limit : nat) (l : log) (from : N) (evs : log) : Prop :=
  (forall f, mr_keep f = true -> keep f = true)
  /\ exists src pre, (src = l \/ src = upto from l) /\ filter keep src = pre ++ evs
       /\ (pre = [] \/ (limit <= count_msgs_upto from evs)%nat).
Definition keep_all (f : frame) : bool := true.

(* Two of the producers, concretely (budgets in frames; the byte budgets of the code only decide how many frames).
   scan_tail_messages_runs_v1 + the acceptance test of load_context_compile_input_recent_messages_v1: *)
Definition lastn_frames (k : nat) (x : log) : log := rev (firstn k (rev x)).
Definition mr_tail (k : nat) (l : log) : log := lastn_frames k (filter mr_keep l).
Definition mr_tail_complete (k : nat) (l : log) : bool := (length (filter mr_keep l) <=? k)%nat.
(* WHAT the acceptance test of an incomplete tail counts (`let message_count = …` of
   load_context_compile_input_recent_messages_v1; the expression is read from the source on every run by
   tools/gen/compile_consts.py -> Gen/CompileConsts.v gen_tail_count):
     CountUpToCut   message_events.iter().filter(|(seq, _)| *seq <= from_seq).count()   the code as it is
     CountAll       message_events.len()   (every message of the scanned tail, also those after the cut: unsound,
                    tail_count_all_refuted) *)
Inductive tail_count := CountUpToCut | CountAll.
Definition tail_message_count (r : tail_count) (from : N) (evs : log) : nat :=
  match r with
  | CountUpToCut => count_msgs_upto from evs
  | CountAll => length (filter is_msg evs)
  end.
Definition tail_count_sound (r : tail_count) : bool := match r with CountUpToCut => true | CountAll => false end.
Definition tail_path_with (r : tail_count) (limit k : nat) (l : log) (a : N) : option (log * N) :=
  let evs := mr_tail k l in
  match tail_cut evs (head_seq l) a with
  | Some from =>
    if mr_tail_complete k l || (limit <=? tail_message_count r from evs)%nat then Some (evs, from) else None
  | None => None            (* anchor not in this tail: the caller doubles the budget or falls back *)
  end.
Definition tail_path : nat -> nat -> log -> N -> option (log * N) := tail_path_with CountUpToCut.

(* A compile racing with an append (S24).  The tail path and the mr seek window take the messages / run_ended frames from
   the mr sidecar and the head from the full sidecar; an append writes the full sidecar line first and the mr line after
   it.  `full` = the full sidecar as the reader finds it, `mr` = the reader's view of the mr sidecar (read after the head).
   head_seq_seen_by_messages_runs_v1 (fixed = true, /repo fix): when the full sidecar's last frame belongs in the mr
   sidecar and the mr view does not hold it yet, the append is in flight and the head is the frame before it.
   fixed = false: the code before the fix — the full sidecar's last seq whatever the mr view holds. *)
Definition last_frame (l : log) : option frame := last (map Some l) None.
Definition head_seen (fixed : bool) (full mr : log) : N :=
  match last_frame full with
  | None => 0
  | Some f =>
    if fixed && mr_keep f && (match last_frame mr with Some g => fseq g <? fseq f | None => true end)
    then fseq f - 1 else fseq f
  end.

(* The same for a CHECKPOINT frame in flight (S25): the full sidecar line is written first, the checkpoint sidecar line and
   its index entry last.  `comp` = the checkpoint caches as the compile finds them.  fixed = true
   (compaction_checkpoint_caches_behind_head_v1, /repo fix): when the full sidecar's last frame is a checkpoint the caches do
   not hold yet, the *_for_compile_v1 lookups answer from the stream (the full sidecar); fixed = false: from the caches. *)
Definition ckpts_seen (fixed : bool) (full comp : log) : log :=
  match last_frame full with
  | None => comp
  | Some f =>
    if fixed && is_ckpt f && (match last_frame comp with Some g => fseq g <? fseq f | None => true end)
    then filter is_ckpt full else comp
  end.

(* window_recent_messages_v1_from_message_id_messages_runs_v1: backwards from the boundary over the mr sidecar,
   `if event.seq > from_seq {continue}; push; if message { found += 1; if found >= limit {break} }` *)
Fixpoint window_rev (from : N) (rl : list frame) (limit found : nat) (acc : list frame) {struct rl} : list frame :=
  match rl with
  | [] => acc
  | f :: r =>
    if from <? fseq f then window_rev from r limit found acc
    else if is_msg f then (if (limit <=? S found)%nat then f :: acc else window_rev from r limit (S found) (f :: acc))
    else window_rev from r limit found (f :: acc)
  end.
Definition mr_window (limit : nat) (l : log) (from : N) : log :=
  window_rev from (rev (filter mr_keep l)) limit 0 [].

(* the same loop with the bound the code had before the S26 fix: at the end of its 64 MiB / 100 000-frame back-scan the
   window was handed over as it was, with fewer than `limit` messages although older ones exist (`cap` = that bound, in
   frames).  Since the fix the scan that hits its bound answers None and the caller falls back (full-sidecar window, replay). *)
Definition mr_window_capped (limit cap : nat) (l : log) (from : N) : log :=
  lastn_frames cap (mr_window limit l from).

(* ------------------------------------------------------------------ specification *)
Definition lastn {A} (n : nat) (l : list A) : list A := rev (firstn n (rev l)).

(* the cut point: last frame before the next message after the triggering message, or the head *)
Definition is_anchor (a : N) (f : frame) : bool := is_msg f && (fseq f =? a).
Definition cut_spec (l : log) (a : N) : option N :=
  if existsb (is_anchor a) l then
    Some (match find (fun f => is_msg f && (a <? fseq f)) l with
          | Some n => fseq n - 1
          | None => head_seq l
          end)
  else None.

(* the run that answered message m as of the cut: the last run_ended frame at or before the cut naming m *)
Definition ends_for (from m : N) (f : frame) : bool :=
  match fb f with BRunEnded _ m' => (m' =? m) && (fseq f <=? from) | _ => false end.
Definition run_of (f : frame) : N := match fb f with BRunEnded r _ => r | _ => 0 end.
Definition answered_by (l : log) (from m : N) : option N :=
  option_map run_of (find (ends_for from m) (rev l)).

Definition reply_spec (texts : N -> N) (l : log) (from m : N) : list item :=
  match answered_by l from m with
  | Some run => if texts run =? 0 then [] else [IAssistant (texts run)]
  | None => []
  end.

(* the most recent <= limit messages with after < seq <= cut, oldest first, each followed by its reply *)
Definition in_window (from : N) (after : option N) (f : frame) : bool :=
  is_msg f && (fseq f <=? from) && (match after with Some a => a <? fseq f | None => true end).
Definition messages_spec (P : params) (texts : N -> N) (l : log) (from : N) (after : option N) : list item :=
  flat_map (fun f => IUser (fseq f) :: reply_spec texts l from (fseq f))
           (lastn (p_limit P) (filter (in_window from after) l)).

Definition summary_refs (h : list ckpt) : list item := map (fun c => ISummary (ck_art c) (ck_to c)) h.
Definition after_of (h : list ckpt) : option N := match h with [] => None | _ => Some (max_to h) end.
Definition strategy_of (h : list ckpt) : N := match h with [] => 0 | [_] => 1 | _ => 2 end.

Definition bundle_spec (P : params) (texts : N -> N) (l : log) (a : N) : option bundle :=
  match cut_spec l a with
  | None => None
  | Some cut =>
    let h := hierarchy (p_fixed P) cut (p_max_refs P) l in
    Some {| b_strategy := strategy_of h; b_from := cut; b_anchor := a;
            b_items := summary_refs h ++ messages_spec P texts l cut (after_of h) |}
  end.

(* ------------------------------------------------------------------ observation encoding + case *)
Definition enc_ckpt (c : ckpt) : list N := [ck_seq c; if ck_cum c then 1 else 0; ck_to c; ck_art c].
Definition enc_item (i : item) : list N :=
  match i with ISummary a t => [1; a; t] | IUser s => [2; s] | IAssistant t => [3; t] end.
Definition enc_outcome (o : option (decision * bundle)) : list N :=
  match o with
  | None => [0]
  | Some (d, b) =>
    [1; b_from b; b_anchor b; b_strategy b; d_strategy d; d_cause d; d_resets d; nlen (d_ckpts d)]
      ++ flat_map enc_ckpt (d_ckpts d) ++ [nlen (b_items b)] ++ flat_map enc_item (b_items b)
  end.

Record case := {
  c_log : log;
  c_runs : list (N * runinfo);
  c_anchor : N;
  c_expect : list N }.

(* the code as it is: limits and checkpoint visibility rule as read from the source (Gen/CompileConsts.v);
   today the rule is `to_seq <= from_seq` alone (S9, open finding) *)
Definition code_params (limit max_refs : N) (frame_rule : bool) : params :=
  {| p_limit := N.to_nat limit; p_max_refs := N.to_nat max_refs; p_fixed := frame_rule |}.

Definition model_obs (limit max_refs : N) (frame_rule : bool) (c : case) : list N :=
  enc_outcome (compile (code_params limit max_refs frame_rule) (texts_of (c_runs c)) (c_log c) (c_anchor c)).
Definition check_case (limit max_refs : N) (frame_rule : bool) (c : case) : bool :=
  valid_log (c_log c) && lN_eqb (model_obs limit max_refs frame_rule c) (c_expect c).
