(* C18 — T1: the ORDER of the file-system / environment steps of the lock protocol as it stands in the Rust source
   (marker codes extracted by tools/gen/auth_steps.py into Gen/AuthSteps.v on every run) compared with the order the model
   implements.  Two halves: (a) the extracted marker lists equal the lists this file expects; (b) every marker is mapped to
   the program counter of Model/Authority.v at which the model performs that step, and the mapped, de-duplicated sequence
   equals the program-counter trace of the MODEL ITSELF running that function — so neither the source nor the model can
   change its step order alone.  No proofs in this file. *)
From RipV Require Import Base.Prelude Model.Authority.

Record auth_steps := {
  as_acquire : list N;   (* try_acquire: 1 create_new(true) 2 create(true) 3 truncate(true) 4 open(&lock_path) 5 write_all(&json) 6 fs::write(&lock_path 7 File::create *)
  as_drop : list N;      (* Drop: 1 remove meta 2 remove lock *)
  as_meta : list N;      (* atomic_write_file: 1 write tmp 2 remove meta 3 rename tmp->meta *)
  as_stale : list N;     (* 1 !exists->false 2 re-read lock 3 pid!=expected->false 4 rename lock 5 read meta 6 meta.pid==expected 7 rename meta 8 rm lock tombstone 9 rm meta tombstone 10/11 remove_file(lock/meta path) *)
  as_corrupt : list N;   (* 1 !exists->false 2 meta exists? 3 read meta 4 Dead => proceed 5 else false 6 rename lock 7 rm tombstone 8 remove_file(lock path) *)
  as_server : list N;    (* 1 try_acquire 2 read meta 3 ping 4 if reachable 5 read lock 6 liveness 7 if Dead && !reachable 8 stale cleanup 9 invalid-since 10 if invalid > 1 s 11 corrupt cleanup *)
  as_client : list N     (* 1 read meta 2 ping 3 liveness(meta) 4 if Dead 5 stale cleanup 6 if lock exists 7 read lock 8 liveness(lock) 9 invalid-since 10 if invalid > 1 s 11 corrupt cleanup 12 spawn 13 try_acquire 14 (meta branch) if lock.json exists *);
  as_serve : list N;     (* serve: 1 recovery loop (acquire) 2 bind 3 write_meta 4 select! 5 shutdown_tx.send 6 drain timeout 7 abort 8 ANY explicit release / move of the guard (drop(lock), forget, `let _ = lock`, move closure) *)
  as_lock_err : list N;  (* bytes: static prefix of the error text read_authority_lock_record produces for unparsable JSON *)
  as_server_pat : list N;(* bytes: the literal the server loop looks for (`lock_err.contains(..)`) to decide "corrupt lock" *)
  as_client_pat : list N (* bytes: the literal the client loop looks for *)
}.

Definition exp_acquire : list N := [1; 4; 5].
Definition exp_drop : list N := [1; 2].
Definition exp_meta : list N := [1; 2; 3].
Definition exp_stale : list N := [1; 2; 3; 4; 5; 6; 7; 9; 8].
Definition exp_corrupt : list N := [1; 2; 3; 4; 5; 6; 7].
(* the guard lives from the recovery loop to the END of serve (after the drain): no explicit release anywhere *)
Definition exp_serve : list N := [1; 2; 3; 4; 5; 6; 7].
Definition exp_server : list N := [1; 2; 3; 4; 5; 6; 7; 8; 9; 10; 11].
Definition exp_client : list N := [1; 2; 3; 4; 14; 5; 12; 6; 7; 8; 4; 5; 9; 10; 11; 12].

(* marker -> pc_code of the model step that performs it *)
Definition pc_of_acquire (c : N) : N := match c with 1 => 1 | 4 => 1 | 5 => 2 | _ => 99 end.
Definition pc_of_drop (c : N) : N := match c with 1 => 6 | 2 => 7 | _ => 99 end.
Definition pc_of_meta (c : N) : N := match c with 1 => 3 | 2 => 4 | 3 => 5 | _ => 99 end.
Definition pc_of_stale (c : N) : N :=
  match c with 1 => 13 | 2 => 14 | 3 => 14 | 4 => 15 | 5 => 16 | 6 => 16 | 7 => 17 | 8 => 17 | 9 => 17 | _ => 99 end.
Definition pc_of_corrupt (c : N) : N :=
  match c with 1 => 18 | 2 => 19 | 3 => 22 | 4 => 23 | 5 => 23 | 6 => 20 | 7 => 20 | _ => 99 end.
Definition pc_of_server (c : N) : N :=
  match c with 1 => 1 | 2 => 8 | 3 => 12 | 4 => 12 | 5 => 9 | 6 => 11 | 7 => 11 | 8 => 13 | 9 => 9 | 10 => 9 | 11 => 18 | _ => 99 end.
(* the client loop uses some markers twice (meta.json branch / lock.json branch), so its pcs are given by POSITION in
   exp_client: read meta, ping, liveness(meta pid) + if Dead (LiveM), if lock exists (LockExistsM), stale cleanup, spawn
   (LockExistsM = false) | if lock exists (LockExists), read lock, liveness + if Dead (Live), stale cleanup, invalid-since
   + if > 1 s (decided at RdLock), corrupt cleanup, spawn (LockExists = false) *)
Definition client_pcs : list N := [8; 12; 24; 24; 25; 13; 25; 10; 9; 11; 11; 13; 9; 9; 18; 10].

Fixpoint prefixb (p l : list N) : bool :=
  match p, l with
  | [], _ => true
  | a :: p', b :: l' => (a =? b) && prefixb p' l'
  | _ :: _, [] => false
  end.
Fixpoint subb (p l : list N) : bool :=
  prefixb p l || match l with [] => false | _ :: l' => subb p l' end.
(* the model's step "the loop read a half-written lock (RLock (LHalf _)) => corrupt cleanup after the grace period" assumes
   that both loops RECOGNISE the reader's error: they decide by the error TEXT *)
Definition loops_recognise_corrupt (g : auth_steps) : bool :=
  negb (N.of_nat (length (as_server_pat g)) =? 0) && negb (N.of_nat (length (as_client_pat g)) =? 0)
  && subb (as_server_pat g) (as_lock_err g) && subb (as_client_pat g) (as_lock_err g).

Fixpoint dedup (l : list N) : list N :=
  match l with
  | a :: r => match r with
              | b :: _ => if a =? b then dedup r else a :: dedup r
              | [] => [a]
              end
  | [] => []
  end.

(* the program counters process 0 of the MODEL goes through *)
Fixpoint pc_trace (n : nat) (o : N) (s : state) : list N :=
  match n with
  | O => []
  | S n' => match nth_error (s_procs s) 0 with
            | Some q => pc_code (p_pc q) :: pc_trace n' o (step true s (Step 0 o))
            | None => []
            end
  end.
Definition script_trace (n : nat) (l : lockf) (m : metaf) (cs : list call) : list N :=
  pc_trace n 0 (init l m [fresh 1 (DScript cs)]).
Definition loop_trace (n : nat) (o : N) (l : lockf) (m : metaf) (d : driver) : list N :=
  pc_trace n o (init l m [fresh 1 d]).

Definition auth_steps_wf (g : auth_steps) : bool :=
  (* (a) the source has the expected step order *)
  lN_eqb (as_acquire g) exp_acquire && lN_eqb (as_drop g) exp_drop && lN_eqb (as_meta g) exp_meta
  && lN_eqb (as_stale g) exp_stale && lN_eqb (as_corrupt g) exp_corrupt
  && lN_eqb (as_server g) exp_server && lN_eqb (as_client g) exp_client && lN_eqb (as_serve g) exp_serve
  && loops_recognise_corrupt g
  (* (b) ... which is the order the model runs *)
  && lN_eqb (dedup (map pc_of_acquire (as_acquire g))) (script_trace 2 LAbsent MAbsent [CAcquire])
  && lN_eqb ([1; 2] ++ dedup (map pc_of_drop (as_drop g))) (script_trace 4 LAbsent MAbsent [CAcquire; CDrop])
  && lN_eqb ([1; 2] ++ dedup (map pc_of_meta (as_meta g))) (script_trace 5 LAbsent MAbsent [CAcquire; CWriteMeta])
  && lN_eqb (dedup (map pc_of_stale (as_stale g))) (script_trace 5 (LRec 900) (MRec 900) [CStale 900])
  && lN_eqb (dedup (map pc_of_corrupt (as_corrupt g))) (script_trace 5 (LHalf 900) (MRec 901) [CCorrupt])
  && (let e := dedup (map pc_of_server (as_server g)) in
      lN_eqb (firstn 6 e) (loop_trace 6 0 (LRec 900) (MRec 900) DServer)
      && lN_eqb ([1; 8; 12] ++ skipn 6 e) (loop_trace 5 2 (LHalf 900) (MRec 901) DServer))
  && (let e := dedup client_pcs in
      Nat.eqb (length (as_client g)) (length client_pcs)
      && lN_eqb (firstn 5 e) (loop_trace 5 0 (LRec 900) (MRec 900) DClient)
      && lN_eqb (firstn 4 e ++ [8]) (loop_trace 5 0 LAbsent (MRec 900) DClient)
      && lN_eqb (nth 5 e 0 :: nil) [25]
      && lN_eqb (8 :: firstn 4 (skipn 6 e)) (loop_trace 5 0 (LRec 900) MAbsent DClient)
      && lN_eqb ([8; 10] ++ firstn 2 (skipn 10 e)) (loop_trace 4 2 (LHalf 900) MAbsent DClient)
      && lN_eqb (skipn 12 e) [10]).
