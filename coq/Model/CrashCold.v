(* C05 - cold start of the per-thread counter.  A restart forgets every in-memory counter (ContinuityStore::next_seq
   is rebuilt lazily): the FIRST append of each writer on a thread has to find its seq on disk, and each of the
   writers (append_message, append_run_spawned, .., append_compaction_checkpoint_created, append_job_spawned, ..)
   has its own `None => ..` arm for that.  This file models one thread's stream at the level of seq numbers:
   the log, the full sidecar (written after the log, so it may lag by the frames of a crashed call) and the
   counter, with the source of the cold-start seq a parameter PER WRITER.  Model only; proofs in
   Proofs/CrashColdProofs.v; the per-writer sources of /repo are read by tools/gen/crash_effects.py
   (Gen/CrashEffects.v: gen_cold_start). *)
From Coq Require Import List NArith Bool Arith.
From RipV Require Import Base.Prelude.
Import ListNotations.
Open Scope N_scope.

Record cs := { c_log : list N; c_side : list N; c_ctr : option N }.

(* where a writer takes its seq from when the thread has no counter in memory *)
Inductive src :=
| FromLog        (* load_next_seq_for as repaired in /repo 0b0d2b0: the log's tail decides; a sidecar whose tail
                    disagrees is rebuilt from the log *)
| FromSideTail.  (* the full sidecar's last line + 1 (try_read_last_seq), load_next_seq_for only when there is none *)

Definition lastN (l : list N) : option N := hd_error (rev l).
Definition optN_eqb (a b : option N) : bool :=
  match a, b with Some x, Some y => x =? y | None, None => true | _, _ => false end.

(* load_next_seq_for: (sidecar afterwards, seq) *)
Definition cold_log (s : cs) : list N * N :=
  (if optN_eqb (lastN (c_side s)) (lastN (c_log s)) then c_side s else c_log s,
   match lastN (c_log s) with Some q => q + 1 | None => 0 end).
Definition cold (r : src) (s : cs) : list N * N :=
  match r with
  | FromLog => cold_log s
  | FromSideTail => match lastN (c_side s) with Some q => (c_side s, q + 1) | None => cold_log s end
  end.
(* seq resolution of a locked append: the counter, else the writer's cold start *)
Definition resolve (r : src) (s : cs) : list N * N :=
  match c_ctr s with Some n => (c_side s, n) | None => cold r s end.

Inductive ev :=
| EAppend (w : nat)     (* a complete append by writer w: log line, sidecar line, counter *)
| ECrashMid (w : nat)   (* writer w's append dies between its log flush and its sidecar write; restart *)
| ERestart.             (* restart: every in-memory counter forgotten *)

Definition step (srcs : nat -> src) (s : cs) (e : ev) : cs :=
  match e with
  | EAppend w =>
    let r := resolve (srcs w) s in
    {| c_log := c_log s ++ [snd r]; c_side := fst r ++ [snd r]; c_ctr := Some (snd r + 1) |}
  | ECrashMid w =>
    let r := resolve (srcs w) s in
    {| c_log := c_log s ++ [snd r]; c_side := fst r; c_ctr := None |}
  | ERestart => {| c_log := c_log s; c_side := c_side s; c_ctr := None |}
  end.
Definition run (srcs : nat -> src) (s : cs) (es : list ev) : cs := fold_left (step srcs) es s.

(* a thread right after its creation: frame 0 in the log and in the sidecar, counter set *)
Definition created : cs := {| c_log := [0]; c_side := [0]; c_ctr := Some 1 |}.

Definition iota (n : nat) : list N := map N.of_nat (seq 0 n).
Definition numbered_b (l : list N) : bool := lN_eqb l (iota (length l)).

Fixpoint writers (es : list ev) : list nat :=
  match es with
  | [] => []
  | EAppend w :: r | ECrashMid w :: r => w :: writers r
  | ERestart :: r => writers r
  end.

(* the sources read from the code: writer i of the generated list; anything the extractor did not certify as
   "load_next_seq_for and nothing else" counts as a sidecar-tail reader *)
Definition srcs_of (certified : list bool) (w : nat) : src := if nth w certified false then FromLog else FromSideTail.
