(* C14 — checkpoint create / rewind (rip-workspace/src/lib.rs:152-296, as repaired by abf09af) over the
   file-system model Base/Fs.v.  Executable definitions only; lemmas are in Proofs/CheckpointProofs.v.

   The workspace is an `fs` whose top directory [] is the workspace root.  A requested path string is
   relativised by Paths.to_relative; what is recorded (`rel`) is free of `..`, relative, and has no
   leading / trailing trivial segments, so `root.join(rel)` names the component list `real_segs rel`
   below the root with no trailing marker.  The checkpoint store (<root>/.rip/checkpoints/<session>/
   <id>/{checkpoint.json, files/}) is abstracted to the list of recorded entries: (rel, Some bytes)
   for exists=true, (rel, None) for exists=false; store-side failures are not modelled. *)
From RipV Require Export Base.Prelude Base.Fs Model.Paths.

Definition key (rel : str) : path := real_segs rel.
Definition tgt_of (rel : str) : tgt :=
  {| t_base := []; t_comps := real_segs rel; t_trail := TNone; t_nul := false |}.

Definition entry := (str * option bytes)%type.

Fixpoint map_res {A B} (f : A -> res B) (l : list A) : res (list B) :=
  match l with
  | [] => Ok []
  | x :: r =>
    match f x with
    | Err e => Err e
    | Ok y => match map_res f r with Err e => Err e | Ok ys => Ok (y :: ys) end
    end
  end.

(* `if source.exists() { fs::read(&source)? ... exists: true } else { exists: false }` *)
Definition save_one (f : fs) (rel : str) : res entry :=
  let t := tgt_of rel in
  if os_exists f t then match os_read f t with Ok b => Ok (rel, Some b) | Err e => Err e end
  else Ok (rel, None).

(* create_checkpoint: every path is validated before the first effect; the workspace is only read *)
Definition create (f : fs) (root : str) (raws : list str) : res (list entry) :=
  match map_res (to_relative root) raws with
  | Err e => Err e
  | Ok rels => map_res (save_one f) rels
  end.

(* the behaviour before the repair: existence and bytes were taken from the raw path as the OS
   resolves it (process cwd), here given as a second file-system view `fcwd` *)
Definition save_one_unfixed (fcwd : fs) (raw rel : str) : res entry :=
  let t := tgt_of raw in
  if os_exists fcwd t then match os_read fcwd t with Ok b => Ok (rel, Some b) | Err e => Err e end
  else Ok (rel, None).

(* one step of the restore loop; a failing create_dir_all may already have created directories *)
Definition apply_one (f : fs) (e : entry) : fs * option N :=
  let t := tgt_of (fst e) in
  match snd e with
  | Some b =>
    let '(f1, er) := mk_parent_dirs f t in
    match er with
    | Some x => (f1, Some x)
    | None => match os_write f1 t b with Ok f2 => (f2, None) | Err x => (f1, Some x) end
    end
  | None =>
    if os_exists f t
    then match os_remove_file f t with Ok f2 => (f2, None) | Err x => (f, Some x) end
    else (f, None)
  end.

Fixpoint apply_all (f : fs) (ck : list entry) : fs * option N :=
  match ck with
  | [] => (f, None)
  | e :: r =>
    let '(f1, er) := apply_one f e in
    match er with Some x => (f1, Some x) | None => apply_all f1 r end
  end.

(* the undo loop ignores every error *)
Definition undo_one (f : fs) (e : entry) : fs :=
  let t := tgt_of (fst e) in
  match snd e with
  | Some b =>
    let '(f1, _) := mk_parent_dirs f t in
    match os_write f1 t b with Ok f2 => f2 | Err _ => f1 end
  | None => match os_remove_file f t with Ok f2 => f2 | Err _ => f end
  end.
Definition undo_all (f : fs) (u : list entry) : fs := fold_left undo_one u f.

(* BTreeMap<String, Option<Vec<u8>>>: iteration in string order, one entry per distinct string *)
Fixpoint str_ltb (a b : str) : bool :=
  match a, b with
  | [], [] => false
  | [], _ :: _ => true
  | _ :: _, [] => false
  | x :: a', y :: b' => if x <? y then true else if y <? x then false else str_ltb a' b'
  end.
Fixpoint bt_insert (e : entry) (l : list entry) : list entry :=
  match l with
  | [] => [e]
  | h :: r =>
    if str_eqb (fst e) (fst h) then e :: r
    else if str_ltb (fst e) (fst h) then e :: l
    else h :: bt_insert e r
  end.
Definition btree (l : list entry) : list entry := fold_left (fun acc e => bt_insert e acc) l [].

(* rewind_to_checkpoint: snapshot the current state of every recorded path, restore, undo on error *)
Definition rewind (f : fs) (ck : list entry) : fs * option N :=
  match map_res (save_one f) (map fst ck) with
  | Err e => (f, Some e)
  | Ok snap =>
    let '(f1, er) := apply_all f ck in
    match er with
    | None => (f1, None)
    | Some x => (undo_all f1 (btree snap), Some x)
    end
  end.

(* every file of the workspace is reachable: all its proper ancestors are directories with
   admissible names — true of every real tree *)
Definition reachable_file (f : fs) (qn : path * node) : bool :=
  match snd qn with
  | Dir => true
  | File _ => match fst qn with [] => false | p => match dirs_ok f [] p with None => true | Some _ => false end end
  end.
Definition sane_b (f : fs) : bool := forallb (reachable_file f) f.

(* every entry of the tree, directory or file, is reachable (a listing of a real tree) *)
Definition reachable_node (f : fs) (qn : path * node) : bool :=
  match fst qn with [] => false | p => match dirs_ok f [] p with None => true | Some _ => false end end.
Definition tree_b (f : fs) : bool := forallb (reachable_node f) f.

(* no name of the tree holds a NUL byte — the kernel cannot create one *)
Definition nonul_b (f : fs) : bool := forallb (fun qn => negb (comps_nul (fst qn))) f.

(* ---------- the write tool (rip-tools/src/builtins/write.rs run_write) on the same file system ----------
   The `path` argument goes through the step list of builtins::resolve_path (Paths.interp codes; read from the
   source by tools/gen/autocover.py: [1; 2; 3] = absolute guard, ParentDir guard, root.join); the auto checkpoint
   gets the argument through the step list of runtime.rs files_for_invocation ([1; 2; 6]).  `arg_interp` is what
   the steps leave of the ARGUMENT (the string that is joined to the root / handed to the checkpoint store). *)
Fixpoint arg_interp (steps : list N) (x : str) : res str :=
  match steps with
  | [] => Ok x
  | 1 :: r => if is_absolute x then Err V_ABS else arg_interp r x
  | 2 :: r => if has_parent x then Err V_PARENT else arg_interp r x
  | 3 :: _ => Ok x
  | 4 :: r => arg_interp r (trim x)
  | 5 :: r => match x with [] => Err V_EMPTY | _ => arg_interp r x end
  | 6 :: _ => Ok x
  | _ :: _ => Err V_OTHER
  end.

(* OpenOptions::new().create(c).append(true).open(p) + write_all *)
Definition os_append (f : fs) (t : tgt) (create : bool) (data : bytes) : res fs :=
  match pre_err f t with
  | Some e => Err e
  | None =>
    match lookup f (t_path t) with
    | Some Dir => Err EISDIR
    | Some (File b) => match t_trail t with TNone => Ok (set f (t_path t) (File (b ++ data))) | _ => Err ENOTDIR end
    | None =>
      if create then match t_trail t with TNone => Ok (set f (t_path t) (File data)) | TSlash => Err EISDIR | TDot => Err ENOENT end
      else Err ENOENT
    end
  end.

Definition rm_ignore (f : fs) (t : tgt) : fs := match os_remove_file f t with Ok f' => f' | Err _ => f end.

(* the temporary file of the atomic branch: `path.with_extension(<ext>)` (std's algorithm, Paths.with_extension);
   for a file name `..x` std yields the directory above (`<dir>/..`): opening it for writing is EISDIR *)
Definition tmp_tgt (x ext : str) : tgt := mk_tgt [] (with_extension x ext).
Definition tmp_is_parent (x ext : str) : bool := has_parent (with_extension x ext).

(* mode 0 atomic (the default), 1 plain (`atomic: false`), 2 append, 3 append with `create: false`;
   result: the workspace after the call and the error of a failed call *)
Definition write_tool (tsteps : list N) (f : fs) (raw ext : str) (mode : N) (data : bytes) : fs * option N :=
  match arg_interp tsteps raw with
  | Err e => (f, Some e)
  | Ok x =>
    match file_name raw with
    | None => (f, Some V_NOFILE)
    | Some _ =>
      let t := mk_tgt [] x in
      let '(f1, er) := mk_parent_dirs f t in
      match er with
      | Some e => (f1, Some e)
      | None =>
        if (mode =? 2) || (mode =? 3) then
          match os_append f1 t (mode =? 2) data with Ok f2 => (f2, None) | Err e => (f1, Some e) end
        else if mode =? 0 then
          if tmp_is_parent x ext then (f1, Some EISDIR) else
          let tt := tmp_tgt x ext in
          match os_write f1 tt data with
          | Err e => (f1, Some e)
          | Ok f2 =>
            if os_exists f2 t then
              match os_remove_file f2 t with
              | Err e => (rm_ignore f2 tt, Some e)
              | Ok f3 => match os_rename_file f3 tt t with Ok f4 => (f4, None) | Err e => (rm_ignore f3 tt, Some e) end
              end
            else match os_rename_file f2 tt t with Ok f4 => (f4, None) | Err e => (rm_ignore f2 tt, Some e) end
          end
        else match os_write f1 t data with Ok f2 => (f2, None) | Err e => (f1, Some e) end
      end
    end
  end.

(* what ToolRunner::run does around the call: the auto checkpoint of the argument as files_for_invocation leaves it
   (None: refused before the store / the checkpoint failed - the tool runs all the same), then the tool *)
Definition auto_checkpoint (asteps : list N) (f : fs) (root raw : str) : option (list entry) :=
  match arg_interp asteps raw with
  | Err _ => None
  | Ok a => match create f root [a] with Ok ck => Some ck | Err _ => None end
  end.

(* tie T1 (tools/gen/autocover.py -> Gen/AutoCover.v): the two step lists, how the temporary name is made
   (1 = with_extension(format!("tmp-{}", Uuid::new_v4())): a name nobody else has; 2 = a fixed extension;
   99 = anything else) and the (operation, derivation) program of run_write as tools/gen/resolvers.py reads it *)
Definition expected_tool_steps : list N := [1; 2; 3].
Definition expected_auto_steps : list N := [1; 2; 6].
Definition expected_tmp_kind : N := 1.
Definition expected_write_prog : list (N * N) :=
  [(3, 12); (5, 1); (4, 13); (2, 1); (6, 1); (6, 13); (7, 13); (7, 1); (6, 13); (4, 1)].
Definition cover_wf (found : bool) (tsteps asteps : list N) (tmp_kind : N) (prog : list (N * N)) : bool :=
  found && list_eqb N.eqb tsteps expected_tool_steps && list_eqb N.eqb asteps expected_auto_steps
  && (tmp_kind =? expected_tmp_kind) && list_eqb op_eqb prog expected_write_prog.

(* ---------- the store side: stored copies that are no longer what create wrote ----------
   The store (<root>/.rip/checkpoints/...) lies inside the workspace: a file tool, a shell command or a hard link
   can change or remove a stored copy between create and rewind.  `store` lists the copies that differ NOW from
   what create wrote: (recorded name, Some other bytes | None = the copy is gone); every other copy is intact.
   checkpoint.json records sha256(bytes) per file; rewind compares it with the copy it reads (as repaired;
   `verify = false` is the behaviour before the repair: the recorded hash was never looked at).  The hash is
   idealised as collision free: equal hash = equal bytes. *)
Definition store := list (str * option bytes).
Fixpoint stored (st : store) (rel : str) (orig : bytes) : option bytes :=
  match st with
  | [] => Some orig
  | (r, v) :: t => if str_eqb r rel then v else stored t rel orig
  end.

(* one step of the restore loop: `fs::read(&source_path)?`, the hash comparison, then as apply_one *)
Definition apply_one_st (verify : bool) (st : store) (f : fs) (e : entry) : fs * option N :=
  match snd e with
  | Some b =>
    match stored st (fst e) b with
    | None => (f, Some ENOENT)
    | Some b' => if verify && negb (lN_eqb b' b) then (f, Some EINVALDATA) else apply_one f (fst e, Some b')
    end
  | None => apply_one f e
  end.
Fixpoint apply_all_st (verify : bool) (st : store) (f : fs) (ck : list entry) : fs * option N :=
  match ck with
  | [] => (f, None)
  | e :: r =>
    let '(f1, er) := apply_one_st verify st f e in
    match er with Some x => (f1, Some x) | None => apply_all_st verify st f1 r end
  end.
Definition rewind_st (verify : bool) (st : store) (f : fs) (ck : list entry) : fs * option N :=
  match map_res (save_one f) (map fst ck) with
  | Err e => (f, Some e)
  | Ok snap =>
    let '(f1, er) := apply_all_st verify st f ck in
    match er with
    | None => (f1, None)
    | Some x => (undo_all f1 (btree snap), Some x)
    end
  end.

(* tie T1 (tools/gen/autocover.py): inside rewind's restore loop, in source order: 1 `fs::read(&source_path)?`,
   2 the comparison of hash_bytes(&bytes) with the recorded sha256 (mismatch returns an error), 3 create_dir_all of the
   target's parent, 4 `fs::write(&target_path, &bytes)` *)
Definition expected_restore_order : list N := [1; 2; 3; 4].
Definition store_wf (order : list N) : bool := list_eqb N.eqb order expected_restore_order.

(* tie T1 for apply_patch (not modelled beyond its paths): Patch::affected_paths pushes, per PatchOp variant in source
   order (1 AddFile, 2 DeleteFile, 3 UpdateFile), the fields 1 = path, 2 = moved_to; PatchOp has exactly these variants;
   every file-system call of Workspace::apply_patch and of its undo takes a path derived from safe_join(path) /
   safe_join(moved_to) (the programs 40-43, 46 of Paths.expected_progs, read by tools/gen/resolvers.py) *)
Definition expected_patch_cover : list (N * list N) := [(1, [1]); (2, [1]); (3, [1; 2])].
Definition patch_ids : list N := [40; 41; 42; 43; 46].
Definition patch_wf (variants_ok : bool) (cover : list (N * list N)) (progs : list (N * list (N * N))) : bool :=
  variants_ok && list_eqb idl_eqb cover expected_patch_cover
  && list_eqb prog_eqb progs (filter (fun p => existsb (N.eqb (fst p)) patch_ids) expected_progs).

(* ---------- correspondence (harness/src/bin/c14.rs) ---------- *)
Inductive op :=
| OCreate (raws : list str) (code : N) (recorded : list (str * bool))   (* observed result *)
| ORewind (idx : N) (code : N)                                           (* idx-th successful create *)
| OWrite (raw : str) (mode : N) (data : bytes) (code : N) (tmp : str)   (* the write tool: 0 = exit code 0; tmp = what std's
                                                                            root.join(raw).with_extension("tmp-UUID") is below the root *)
| OTamper (idx : N) (rel : str) (now : option bytes)                     (* a stored copy of the idx-th checkpoint was changed / removed *)
| OEdit.                                                                 (* the harness / apply_patch changed the workspace *)

(* what the harness saw change in the workspace listing (without .rip) across one operation: entries that appeared or
   changed (Some node) and entries that disappeared (None); [] = the listing is as before *)
Definition delta := list (path * option node).
Definition apply_delta (f : fs) (d : delta) : fs :=
  fold_left (fun g pn => match snd pn with Some n => set g (fst pn) n | None => unset g (fst pn) end) d f.

Record case := {
  c_root : str;
  c_init : fs;
  c_ops : list (op * delta)         (* operation, change of the observed workspace listing across it *)
}.

Definition entry_flags (ck : list entry) : list (str * bool) :=
  map (fun e => (fst e, match snd e with Some _ => true | None => false end)) ck.
Definition flag_eqb (a b : str * bool) : bool := str_eqb (fst a) (fst b) && Bool.eqb (snd a) (snd b).

(* the extension the model hands to write_tool: like the real one it must not name an existing file *)
Definition corr_ext : str := [116; 109; 112; 45; 85; 85; 73; 68].       (* "tmp-UUID" *)
Definition tmp_fresh (f : fs) (steps : list N) (raw ext : str) : bool :=
  match arg_interp steps raw, file_name raw with
  | Ok x, Some _ => match lookup f (t_path (tmp_tgt x ext)) with None => true | Some _ => false end
  | _, _ => true
  end.

(* write_tool applies with_extension to the root-relative argument; std applies it to root.join(raw): same components *)
Definition tmp_agrees (raw tmp : str) : bool :=
  match arg_interp expected_tool_steps raw, file_name raw with
  | Ok x, Some _ => list_eqb lN_eqb (comps (with_extension x corr_ext)) (comps tmp)
  | _, _ => true
  end.

Fixpoint tamper_nth (cks : list (list entry * store)) (i : nat) (rel : str) (v : option bytes) : list (list entry * store) :=
  match cks, i with
  | [], _ => []
  | (ck, st) :: r, O => (ck, (rel, v) :: st) :: r
  | c :: r, S j => c :: tamper_nth r j rel v
  end.

Fixpoint run_ops (root : str) (f : fs) (cks : list (list entry * store)) (ops : list (op * delta)) : bool :=
  match ops with
  | [] => true
  | (o, obs) :: r =>
    let after := apply_delta f obs in
    match o with
    | OCreate raws code recorded =>
      match create f root raws with
      | Ok ck => (code =? 0) && list_eqb flag_eqb (entry_flags ck) recorded && same_listing f after
                 && run_ops root after (cks ++ [(ck, [])]) r
      | Err e => (code =? e) && same_listing f after && run_ops root after cks r
      end
    | ORewind idx code =>
      match nth_error cks (N.to_nat idx) with
      | None => false
      | Some (ck, st) =>
        let '(f1, er) := rewind_st true st f ck in
        (code =? match er with None => 0 | Some _ => 1 end) && same_listing f1 after && run_ops root after cks r
      end
    | OWrite raw mode data code tmp =>
      let '(f1, er) := write_tool expected_tool_steps f raw corr_ext mode data in
      tmp_fresh f expected_tool_steps raw corr_ext && tmp_agrees raw tmp
      && (code =? match er with None => 0 | Some _ => 1 end) && same_listing f1 after && sane_b after && tree_b after && nonul_b after
      && run_ops root after cks r
    | OTamper idx rel now => run_ops root after (tamper_nth cks (N.to_nat idx) rel now) r
    | OEdit => run_ops root after cks r
    end
  end.

Definition check_case (c : case) : bool :=
  sane_b (c_init c) && tree_b (c_init c) && nonul_b (c_init c) && run_ops (c_root c) (c_init c) [] (c_ops c).

(* diagnosis shown on a disagreement: [number of the first operation (from 1) the model does not reproduce
   (0 = the initial workspace is not sane); what failed there: 1 result code, 2 recorded entries, 3 listing,
   4 unknown checkpoint index, 5 the temporary name is taken, 6 observed workspace not sane, 7 std's temporary path differs] *)
Fixpoint diag_ops (root : str) (f : fs) (cks : list (list entry * store)) (ops : list (op * delta)) (i : N) : list N :=
  match ops with
  | [] => []
  | (o, obs) :: r =>
    let after := apply_delta f obs in
    match o with
    | OCreate raws code recorded =>
      match create f root raws with
      | Ok ck => if negb (code =? 0) then [i; 1] else if negb (list_eqb flag_eqb (entry_flags ck) recorded) then [i; 2]
                 else if negb (same_listing f after) then [i; 3] else diag_ops root after (cks ++ [(ck, [])]) r (i + 1)
      | Err e => if negb (code =? e) then [i; 1; e] else if negb (same_listing f after) then [i; 3] else diag_ops root after cks r (i + 1)
      end
    | ORewind idx code =>
      match nth_error cks (N.to_nat idx) with
      | None => [i; 4]
      | Some (ck, st) =>
        let '(f1, er) := rewind_st true st f ck in
        if negb (code =? match er with None => 0 | Some _ => 1 end) then [i; 1; match er with None => 0 | Some e => e end]
        else if negb (same_listing f1 after) then [i; 3] else diag_ops root after cks r (i + 1)
      end
    | OWrite raw mode data code tmp =>
      let '(f1, er) := write_tool expected_tool_steps f raw corr_ext mode data in
      if negb (tmp_fresh f expected_tool_steps raw corr_ext) then [i; 5]
      else if negb (tmp_agrees raw tmp) then [i; 7]
      else if negb (code =? match er with None => 0 | Some _ => 1 end) then [i; 1; match er with None => 0 | Some e => e end]
      else if negb (same_listing f1 after) then [i; 3] else if negb (sane_b after && tree_b after && nonul_b after) then [i; 6]
      else diag_ops root after cks r (i + 1)
    | OTamper idx rel now => diag_ops root after (tamper_nth cks (N.to_nat idx) rel now) r (i + 1)
    | OEdit => diag_ops root after cks r (i + 1)
    end
  end.
Definition model_obs (c : case) : list N :=
  if sane_b (c_init c) && tree_b (c_init c) && nonul_b (c_init c) then diag_ops (c_root c) (c_init c) [] (c_ops c) 1 else [0].

(* ---------- a whole session: several checkpoints, arbitrary edits, rewinds in any order (c14_multi) ---------- *)
Inductive hop :=
| HCreate (raws : list str)     (* a checkpoint of these paths (manual or automatic); refused requests leave no checkpoint *)
| HRewind (i : nat)             (* rewind to the i-th checkpoint taken so far (successful or failing); unknown i: nothing *)
| HEdit (g : fs).               (* anything else that happens to the workspace: it becomes g *)
(* the workspace and, per checkpoint taken, its entries and the workspace it was taken from *)
Fixpoint run_hist (root : str) (f : fs) (cks : list (list entry * fs)) (h : list hop) : fs * list (list entry * fs) :=
  match h with
  | [] => (f, cks)
  | HCreate raws :: r =>
    match create f root raws with
    | Ok ck => run_hist root f (cks ++ [(ck, f)]) r
    | Err _ => run_hist root f cks r
    end
  | HRewind i :: r =>
    match nth_error cks i with
    | Some (ck, _) => run_hist root (fst (rewind f ck)) cks r
    | None => run_hist root f cks r
    end
  | HEdit g :: r => run_hist root g cks r
  end.
Definition hist_sane (h : list hop) : bool :=
  forallb (fun o => match o with HEdit g => sane_b g | _ => true end) h.

