(* C14 — checkpoint create / rewind (rip-workspace/src/lib.rs:152-296, as repaired by abf09af) over the
   file-system model Base/Fs.v.  Executable definitions only; lemmas are in Proofs/CheckpointProofs.v.

   The workspace is an `fs` whose top directory [] is the workspace root.  A requested path string is
   relativised by Paths.to_relative; what is recorded (`rel`) is free of `..`, relative, and has no
   leading / trailing trivial segments, so `root.join(rel)` names the component list `real_segs rel`
   below the root with no trailing marker.  The checkpoint store (<root>/.rip/checkpoints/<session>/
   <id>/{checkpoint.json, files/}) is abstracted to the list of recorded entries: (rel, Some bytes)
   for exists=true, (rel, None) for exists=false; store-side failures are not modelled. *)
From RipV Require Export Base.Prelude Base.Fs Model.Paths.

Definition key (rel : str) : path := real_segs rel.
Definition tgt_of (rel : str) : tgt :=
  {| t_base := []; t_comps := real_segs rel; t_trail := TNone; t_nul := false |}.

Definition entry := (str * option bytes)%type.

Fixpoint map_res {A B} (f : A -> res B) (l : list A) : res (list B) :=
  match l with
  | [] => Ok []
  | x :: r =>
    match f x with
    | Err e => Err e
    | Ok y => match map_res f r with Err e => Err e | Ok ys => Ok (y :: ys) end
    end
  end.

(* `if source.exists() { fs::read(&source)? ... exists: true } else { exists: false }` *)
Definition save_one (f : fs) (rel : str) : res entry :=
  let t := tgt_of rel in
  if os_exists f t then match os_read f t with Ok b => Ok (rel, Some b) | Err e => Err e end
  else Ok (rel, None).

(* create_checkpoint: every path is validated before the first effect; the workspace is only read *)
Definition create (f : fs) (root : str) (raws : list str) : res (list entry) :=
  match map_res (to_relative root) raws with
  | Err e => Err e
  | Ok rels => map_res (save_one f) rels
  end.

(* the behaviour before the repair: existence and bytes were taken from the raw path as the OS
   resolves it (process cwd), here given as a second file-system view `fcwd` *)
Definition save_one_unfixed (fcwd : fs) (raw rel : str) : res entry :=
  let t := tgt_of raw in
  if os_exists fcwd t then match os_read fcwd t with Ok b => Ok (rel, Some b) | Err e => Err e end
  else Ok (rel, None).

(* one step of the restore loop; a failing create_dir_all may already have created directories *)
Definition apply_one (f : fs) (e : entry) : fs * option N :=
  let t := tgt_of (fst e) in
  match snd e with
  | Some b =>
    let '(f1, er) := mk_parent_dirs f t in
    match er with
    | Some x => (f1, Some x)
    | None => match os_write f1 t b with Ok f2 => (f2, None) | Err x => (f1, Some x) end
    end
  | None =>
    if os_exists f t
    then match os_remove_file f t with Ok f2 => (f2, None) | Err x => (f, Some x) end
    else (f, None)
  end.

Fixpoint apply_all (f : fs) (ck : list entry) : fs * option N :=
  match ck with
  | [] => (f, None)
  | e :: r =>
    let '(f1, er) := apply_one f e in
    match er with Some x => (f1, Some x) | None => apply_all f1 r end
  end.

(* the undo loop ignores every error *)
Definition undo_one (f : fs) (e : entry) : fs :=
  let t := tgt_of (fst e) in
  match snd e with
  | Some b =>
    let '(f1, _) := mk_parent_dirs f t in
    match os_write f1 t b with Ok f2 => f2 | Err _ => f1 end
  | None => match os_remove_file f t with Ok f2 => f2 | Err _ => f end
  end.
Definition undo_all (f : fs) (u : list entry) : fs := fold_left undo_one u f.

(* BTreeMap<String, Option<Vec<u8>>>: iteration in string order, one entry per distinct string *)
Fixpoint str_ltb (a b : str) : bool :=
  match a, b with
  | [], [] => false
  | [], _ :: _ => true
  | _ :: _, [] => false
  | x :: a', y :: b' => if x <? y then true else if y <? x then false else str_ltb a' b'
  end.
Fixpoint bt_insert (e : entry) (l : list entry) : list entry :=
  match l with
  | [] => [e]
  | h :: r =>
    if str_eqb (fst e) (fst h) then e :: r
    else if str_ltb (fst e) (fst h) then e :: l
    else h :: bt_insert e r
  end.
Definition btree (l : list entry) : list entry := fold_left (fun acc e => bt_insert e acc) l [].

(* rewind_to_checkpoint: snapshot the current state of every recorded path, restore, undo on error *)
Definition rewind (f : fs) (ck : list entry) : fs * option N :=
  match map_res (save_one f) (map fst ck) with
  | Err e => (f, Some e)
  | Ok snap =>
    let '(f1, er) := apply_all f ck in
    match er with
    | None => (f1, None)
    | Some x => (undo_all f1 (btree snap), Some x)
    end
  end.

(* every file of the workspace is reachable: all its proper ancestors are directories with
   admissible names — true of every real tree *)
Definition reachable_file (f : fs) (qn : path * node) : bool :=
  match snd qn with
  | Dir => true
  | File _ => match fst qn with [] => false | p => match dirs_ok f [] p with None => true | Some _ => false end end
  end.
Definition sane_b (f : fs) : bool := forallb (reachable_file f) f.

(* ---------- correspondence (harness/src/bin/c14.rs) ---------- *)
Inductive op :=
| OCreate (raws : list str) (code : N) (recorded : list (str * bool))   (* observed result *)
| ORewind (idx : N) (code : N)                                           (* idx-th successful create *)
| OEdit (after : fs).                                                    (* the harness changed the workspace *)

Record case := {
  c_root : str;
  c_init : fs;
  c_ops : list (op * fs)            (* operation, workspace listing observed after it (without .rip) *)
}.

Definition entry_flags (ck : list entry) : list (str * bool) :=
  map (fun e => (fst e, match snd e with Some _ => true | None => false end)) ck.
Definition flag_eqb (a b : str * bool) : bool := str_eqb (fst a) (fst b) && Bool.eqb (snd a) (snd b).

Fixpoint run_ops (root : str) (f : fs) (cks : list (list entry)) (ops : list (op * fs)) : bool :=
  match ops with
  | [] => true
  | (o, after) :: r =>
    match o with
    | OCreate raws code recorded =>
      match create f root raws with
      | Ok ck => (code =? 0) && list_eqb flag_eqb (entry_flags ck) recorded && same_listing f after
                 && run_ops root after (cks ++ [ck]) r
      | Err e => (code =? e) && same_listing f after && run_ops root after cks r
      end
    | ORewind idx code =>
      match nth_error cks (N.to_nat idx) with
      | None => false
      | Some ck =>
        let '(f1, er) := rewind f ck in
        (code =? match er with None => 0 | Some _ => 1 end) && same_listing f1 after && run_ops root after cks r
      end
    | OEdit after' => run_ops root after cks r
    end
  end.

Definition check_case (c : case) : bool := sane_b (c_init c) && run_ops (c_root c) (c_init c) [] (c_ops c).

Definition model_obs (c : case) : list N :=
  match c_ops c with
  | (OCreate raws _ _, _) :: _ =>
    match create (c_init c) (c_root c) raws with Ok ck => 0 :: nlen ck :: concat (map fst ck) | Err e => [e] end
  | _ => []
  end.
