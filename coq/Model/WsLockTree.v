(* C11 — "in progress": the lock span of an execution that runs a shell command, and the processes the
   command starts.

   Anchors: crates/ripd/src/tasks/mod.rs run_task (guard taken before, dropped after run_pipes_task /
   run_pty_task), tasks/pipes.rs run_pipes_task (child.wait(), then the two output pumps are JOINED:
   `stdout_handle.await`, `stderr_handle.await` - a pump ends at end-of-stream of its pipe, i.e. when no
   process holds the write end any more), tasks/pty.rs run_pty_task (loop until the child has been waited
   for AND the master reports end of output), rip-tools shell.rs run_command (`tokio::join!` of the two
   captures and child.wait()).

   The execution (actor 0) runs a WAITER: acquire the workspace permit, spawn the command, wait for the
   shell, join the two streams, release.  How a stream is joined is read from the source on every run
   (Gen/LockJoin.v, tools/gen/lockjoin.py on top of tools/gen/pump_join.py): [JAwait] = a plain await of the
   pump (passes only at end-of-stream), [JBounded] = anything else (a timeout, an abort, a handle handed to
   a helper, a detached pump): the waiter can get past it while the stream is still open.

   The command is a set of processes (process 0 = the shell).  Each has a program of workspace writes and
   of closes of the streams it inherited, and is gone when its program is exhausted.  Who forked whom plays
   no role for the pipes (a double-forked grandchild is a process like any other): what matters is which of
   the execution's streams a process still holds when it writes.  Other mutating executions (actors 1, 2, ..)
   acquire, write, release, again and again.  Everything is interleaved by an arbitrary schedule.
   No proofs in this file. *)
From RipV Require Import Base.Prelude.

Inductive jkind := JAwait | JBounded.

(* s = false: stdout, true: stderr (pty mode: both stand for the slave side of the pty) *)
Inductive top :=
| TAcq                         (* workspace_lock.acquire().await returns *)
| TSpawn                       (* cmd.spawn(): the processes of the command start to run *)
| TWaitShell                   (* child.wait() returns: process 0 is gone *)
| TJoin (s : bool) (k : jkind) (* the pump / capture of stream s is joined *)
| TRel.                        (* the guard is dropped *)

Inductive pact :=
| PWrite (n : N)               (* a write to the workspace *)
| PClose (s : bool).           (* closes its copy of stream s *)

Record proc := { prog : list pact; h_out : bool; h_err : bool }.

Definition live (p : proc) : bool := match prog p with [] => false | _ => true end.
Definition holds (s : bool) (p : proc) : bool := live p && (if s then h_err p else h_out p).
Definition attached (p : proc) : bool := holds false p || holds true p.

Inductive ev :=
| ETreeWrite (p : nat) (n : N) (att : bool) (h : option nat)  (* by process p of the command; att = it still
                                                                 held a stream; h = who held the permit *)
| EOtherWrite (j : nat) (h : option nat)                       (* by the other execution j *)
| ETask (o : top)
| EOther (j : nat) (acq : bool).

Record tstate := {
  tholder : option nat;        (* 0 = the execution, S j = other execution j *)
  todo : list top;
  started : bool;
  procs : list proc;
  others : list nat;           (* pc of each other execution: 0 out, 1 acquired, 2 has written *)
  ttrace : list ev             (* newest first *)
}.

Inductive sch := STask | SProc (p : nat) | SOther (j : nat).

Definition nobody_holds (s : bool) (ps : list proc) : bool := forallb (fun p => negb (holds s p)) ps.

Definition shell_gone (ps : list proc) : bool :=
  match ps with [] => true | p :: _ => negb (live p) end.

Definition top_enabled (st : tstate) (o : top) : bool :=
  match o with
  | TAcq => match tholder st with None => true | Some _ => false end
  | TSpawn => true
  | TWaitShell => started st && shell_gone (procs st)
  | TJoin s JAwait => nobody_holds s (procs st)
  | TJoin _ JBounded => true
  | TRel => true
  end.

Fixpoint set_nth {A} (l : list A) (i : nat) (x : A) : list A :=
  match l, i with
  | [], _ => []
  | _ :: r, O => x :: r
  | y :: r, S k => y :: set_nth r k x
  end.

Definition close_stream (s : bool) (p : proc) (r : list pact) : proc :=
  {| prog := r; h_out := if s then h_out p else false; h_err := if s then false else h_err p |}.

Definition tstep (st : tstate) (x : sch) : tstate :=
  match x with
  | STask =>
      match todo st with
      | [] => st
      | o :: r =>
          if top_enabled st o then
            {| tholder := match o with
                          | TAcq => Some 0%nat
                          | TRel => match tholder st with Some 0%nat => None | h => h end
                          | _ => tholder st
                          end;
               todo := r;
               started := match o with TSpawn => true | _ => started st end;
               procs := procs st; others := others st;
               ttrace := ETask o :: ttrace st |}
          else st
      end
  | SProc i =>
      if started st then
        match nth_error (procs st) i with
        | None => st
        | Some p =>
            match prog p with
            | [] => st
            | PWrite n :: r =>
                {| tholder := tholder st; todo := todo st; started := started st;
                   procs := set_nth (procs st) i {| prog := r; h_out := h_out p; h_err := h_err p |};
                   others := others st;
                   ttrace := ETreeWrite i n (attached p) (tholder st) :: ttrace st |}
            | PClose s :: r =>
                {| tholder := tholder st; todo := todo st; started := started st;
                   procs := set_nth (procs st) i (close_stream s p r);
                   others := others st; ttrace := ttrace st |}
            end
        end
      else st
  | SOther j =>
      match nth_error (others st) j with
      | None => st
      | Some 0%nat =>
          match tholder st with
          | None => {| tholder := Some (S j); todo := todo st; started := started st; procs := procs st;
                       others := set_nth (others st) j 1%nat; ttrace := EOther j true :: ttrace st |}
          | Some _ => st
          end
      | Some 1%nat =>
          {| tholder := tholder st; todo := todo st; started := started st; procs := procs st;
             others := set_nth (others st) j 2%nat; ttrace := EOtherWrite j (tholder st) :: ttrace st |}
      | Some _ =>
          {| tholder := match tholder st with Some h => if Nat.eqb h (S j) then None else Some h | None => None end;
             todo := todo st; started := started st; procs := procs st;
             others := set_nth (others st) j 0%nat; ttrace := EOther j false :: ttrace st |}
      end
  end.

Definition tinit (w : list top) (ps : list proc) (n_others : nat) : tstate :=
  {| tholder := None; todo := w; started := false; procs := ps; others := repeat 0%nat n_others; ttrace := [] |}.

Definition trun (w : list top) (ps : list proc) (n_others : nat) (sched : list sch) : tstate :=
  fold_left tstep sched (tinit w ps n_others).

(* ---------------------------------------------------------------- the waiter discipline (obligation on
   the waiter read from the source): one acquire; the spawn under the permit; the release only after BOTH
   streams have been joined by a plain await *)
Record wst := { w_acq : bool; w_sp : bool; w_j0 : bool; w_j1 : bool; w_rel : bool }.

Definition wst0 : wst := {| w_acq := false; w_sp := false; w_j0 := false; w_j1 := false; w_rel := false |}.

Definition wstep (s : wst) (o : top) : option wst :=
  match o with
  | TAcq => if negb (w_acq s) && negb (w_rel s)
            then Some {| w_acq := true; w_sp := w_sp s; w_j0 := w_j0 s; w_j1 := w_j1 s; w_rel := w_rel s |} else None
  | TSpawn => if w_acq s && negb (w_rel s) && negb (w_sp s)
              then Some {| w_acq := w_acq s; w_sp := true; w_j0 := w_j0 s; w_j1 := w_j1 s; w_rel := w_rel s |} else None
  | TWaitShell => Some s
  | TJoin false JAwait => Some {| w_acq := w_acq s; w_sp := w_sp s; w_j0 := true; w_j1 := w_j1 s; w_rel := w_rel s |}
  | TJoin true JAwait => Some {| w_acq := w_acq s; w_sp := w_sp s; w_j0 := w_j0 s; w_j1 := true; w_rel := w_rel s |}
  | TJoin _ JBounded => Some s
  | TRel => if w_acq s && negb (w_rel s) && (negb (w_sp s) || (w_j0 s && w_j1 s))
            then Some {| w_acq := w_acq s; w_sp := w_sp s; w_j0 := w_j0 s; w_j1 := w_j1 s; w_rel := true |} else None
  end.

Fixpoint waccept (s : wst) (w : list top) : bool :=
  match w with
  | [] => negb (w_acq s) || w_rel s
  | o :: r => match wstep s o with Some s' => waccept s' r | None => false end
  end.

Definition waiter_wf (w : list top) : bool := waccept wst0 w.

(* the waiters as they are in the source at the time of writing (examples; the check uses the generated
   ones), and the one the bounded drain (seeded change C11-10) gives *)
Definition ref_waiter : list top :=
  [TAcq; TSpawn; TWaitShell; TJoin false JAwait; TJoin true JAwait; TRel].
Definition bounded_waiter : list top :=
  [TAcq; TSpawn; TWaitShell; TJoin false JBounded; TJoin true JBounded; TRel].

(* `( sleep 4; echo x > f ) & echo started`: the shell writes and is gone, the child keeps both pipes *)
Definition bg_procs : list proc :=
  [ {| prog := [PWrite 1]; h_out := true; h_err := true |};
    {| prog := [PWrite 2]; h_out := true; h_err := true |} ].
(* `( ... ) > /dev/null 2>&1 &`: the child closes both pipes before it writes *)
Definition detached_procs : list proc :=
  [ {| prog := [PWrite 1]; h_out := true; h_err := true |};
    {| prog := [PClose false; PClose true; PWrite 2]; h_out := true; h_err := true |} ].

Definition sched_handover : list sch :=
  [STask; STask; SProc 0; STask; STask; STask; STask; SOther 0; SProc 1].
Definition sched_detached : list sch :=
  [STask; STask; SProc 0; SProc 1; SProc 1; STask; STask; STask; STask; SOther 0; SProc 1].

(* ---------------------------------------------------------------- the tool runner's own throttle
   Every tool call of every session takes one of the runner's [slots] permits for as long as it runs
   (rip-tools runtime.rs ToolRunner::run), the mutating call in progress included.  A read-only call needs no
   workspace permit; it runs at once iff a slot is free. *)
Definition runner_admits (slots inside : N) : bool := N.ltb inside slots.
Definition runner_wf (slots : N) : bool := N.leb 2 slots.

(* ---------------------------------------------------------------- correspondence (T2)
   What the harness observed for one command that leaves a child behind: the site, which streams the child
   holds when it writes, and the lock / process-tree events in observed order: (code, actor) with
   1 acquired, 2 the shell has exited, 3 the child wrote, 4 the execution ended (both joins passed),
   5 released.  Events of other actors are acquires / releases of other executions. *)
Record tcase := { t_site : N; t_out : bool; t_err : bool; t_me : N; t_events : list (N * N) }.

Definition child_of_case (c : tcase) : proc :=
  {| prog := (if t_out c then [] else [PClose false]) ++ (if t_err c then [] else [PClose true]) ++ [PWrite 2];
     h_out := true; h_err := true |}.

Definition procs_of_case (c : tcase) : list proc :=
  [ {| prog := [PWrite 1]; h_out := true; h_err := true |}; child_of_case c ].

(* run process i until its next action is a write (closes are not observable) *)
Fixpoint skip_closes (fuel : nat) (st : tstate) (i : nat) : tstate :=
  match fuel with
  | O => st
  | S f => match nth_error (procs st) i with
           | Some p => match prog p with PClose _ :: _ => skip_closes f (tstep st (SProc i)) i | _ => st end
           | None => st
           end
  end.

(* one waiter step that must be enabled *)
Definition task_step (st : tstate) : option tstate :=
  match todo st with
  | [] => None
  | o :: _ => if top_enabled st o then Some (tstep st STask) else None
  end.

(* waiter steps up to and including the first op satisfying [stop] *)
Fixpoint task_until (fuel : nat) (stop : top -> bool) (st : tstate) : option tstate :=
  match fuel with
  | O => None
  | S f => match todo st with
           | [] => None
           | o :: _ => match task_step st with
                       | None => None
                       | Some st' => if stop o then Some st' else task_until f stop st'
                       end
           end
  end.

Definition is_spawn (o : top) := match o with TSpawn => true | _ => false end.
Definition is_rel (o : top) := match o with TRel => true | _ => false end.
Definition next_is_rel (st : tstate) := match todo st with TRel :: _ => true | _ => false end.

(* waiter steps until the next op is the release (all must be enabled): "the execution ended" *)
Fixpoint task_to_rel (fuel : nat) (st : tstate) : option tstate :=
  match fuel with
  | O => None
  | S f => if next_is_rel st then Some st
           else match task_step st with Some st' => task_to_rel f st' | None => None end
  end.

(* index of another actor among the other executions *)
Definition other_ix (me a : N) : nat := N.to_nat (if N.ltb a me then a else a - 1).

Definition tree_event (me : N) (st : tstate) (e : N * N) : option tstate :=
  let (c, a) := e in
  if N.eqb a me then
    match c with
    | 1 => match task_until 8 is_spawn st with                   (* acquire, spawn; the child's closes *)
           | Some st1 => Some (skip_closes 4 st1 1)              (* come first in its program: run them now *)
           | None => None
           end
    | 2 => match nth_error (procs st) 0 with                     (* the shell writes and is gone *)
           | Some p => if live p && started st then Some (tstep st (SProc 0)) else None
           | None => None
           end
    | 3 => let st1 := skip_closes 4 st 1 in                      (* closes, then the write *)
           match nth_error (procs st1) 1 with
           | Some p => if live p && started st1 then Some (tstep st1 (SProc 1)) else None
           | None => None
           end
    | 4 => task_to_rel 8 st
    | 5 => if next_is_rel st then task_step st else None
    | _ => None
    end
  else
    let j := other_ix me a in
    match c, nth_error (others st) j with
    | 1, Some 0%nat => match tholder st with None => Some (tstep st (SOther j)) | Some _ => None end
    | 5, Some 1%nat => Some (tstep (tstep st (SOther j)) (SOther j))
    | 5, Some 2%nat => Some (tstep st (SOther j))
    | 2, _ | 3, _ | 4, _ => Some st              (* process-tree events of another command: not this case's *)
    | _, _ => None
    end.

Fixpoint tree_replay (me : N) (st : tstate) (es : list (N * N)) (k : N) : (option tstate * N) :=
  match es with
  | [] => (Some st, k)
  | e :: r => match tree_event me st e with
              | Some st' => tree_replay me st' r (k + 1)
              | None => (None, k)
              end
  end.

Definition good_ev (e : ev) : bool :=
  match e with
  | ETreeWrite _ _ true h => match h with Some 0%nat => true | _ => false end
  | EOtherWrite j h => match h with Some x => Nat.eqb x (S j) | None => false end
  | _ => true
  end.

(* the waiter of a site: 0 pipes task, 1 pty task, 2 the shell tool, 3 the shell tool called with `timeout_ms`:
   the runner abandons the call when the time is up, whatever the streams - the bounded waiter (what the code
   does: kill_on_drop kills the shell only; open finding S30); there the model predicts the attached write under
   somebody else's permit, so only the replay is compared *)
Definition waiter_of_site (wpipes wpty wtool : list top) (site : N) : list top :=
  match site with 0 => wpipes | 1 => wpty | 2 => wtool | _ => bounded_waiter end.

Definition check_tree_with (wpipes wpty wtool : list top) (c : tcase) : bool :=
  let w := waiter_of_site wpipes wpty wtool (t_site c) in
  match tree_replay (t_me c) (tinit w (procs_of_case c) 8) (t_events c) 0 with
  | (Some st, _) => N.leb 3 (t_site c) || forallb good_ev (ttrace st)
  | (None, _) => false
  end.

Definition tree_obs_with (wpipes wpty wtool : list top) (c : tcase) : list N :=
  let w := waiter_of_site wpipes wpty wtool (t_site c) in
  match tree_replay (t_me c) (tinit w (procs_of_case c) 8) (t_events c) 0 with
  | (Some st, k) => [0; k; if forallb good_ev (ttrace st) then 1 else 0]
  | (None, k) => [1; k]
  end.
