(* C20 — executable model of rip-cli's headless `raw` and `metrics` views (crates/rip-cli/src/main.rs
   render_message + crates/rip-cli/src/metrics.rs), as folds over the lines of the frame stream.
   A line that is not a frame makes render_message fail; the caller (stream_events_with_writer) stops
   there.  The caller also stops after the first session_ended.  No proofs here (Proofs/ViewsProofs.v). *)
From RipV Require Import Base.Prelude Model.Summary.

(* what the two views inspect of a frame *)
Inductive mkind :=
| MSessionStarted
| MOutputDelta
| MSessionEnded (reason : str)
| MReqStarted (idx : N) (endpoint : str) (model : option str)
| MRespHeaders (idx status : N) (request_id content_type : option str)
| MFirstByte (idx : N)
  (* is_or: provider == "openresponses"; invalid: status == invalid_json *)
| MProvider (is_or invalid : bool) (errors resp_errors : list str) (raw : option str)
| MToolFailed (error : str)
| MOther.

Record mframe := { m_ts : N; m_kind : mkind }.
(* one line of the stream: its text and, when it parses as a frame, the frame *)
Record line := { l_text : str; l_frame : option mframe }.

Definition is_ended (k : mkind) : bool := match k with MSessionEnded _ => true | _ => false end.

(* ---------- metrics.rs: RunMetrics ---------- *)
Record metrics := {
  x_started : option N; x_ended : option N; x_reason : option str; x_first_out : option N;
  o_endpoint : option str; o_model : option str; o_status : option N; o_request_id : option str;
  o_content_type : option str; o_req_started : option N; o_headers : option N; o_first_byte : option N;
  o_first_pev : option N; o_invalid : bool }.

Definition metrics0 : metrics :=
  {| x_started := None; x_ended := None; x_reason := None; x_first_out := None;
     o_endpoint := None; o_model := None; o_status := None; o_request_id := None; o_content_type := None;
     o_req_started := None; o_headers := None; o_first_byte := None; o_first_pev := None; o_invalid := false |}.

Definition is_none {A} (o : option A) : bool := match o with None => true | Some _ => false end.

Definition m_observe (m : metrics) (f : mframe) : metrics :=
  let ts := m_ts f in
  match m_kind f with
  | MSessionStarted =>
    if is_none (x_started m) then
      {| x_started := Some ts; x_ended := x_ended m; x_reason := x_reason m; x_first_out := x_first_out m;
         o_endpoint := o_endpoint m; o_model := o_model m; o_status := o_status m; o_request_id := o_request_id m;
         o_content_type := o_content_type m; o_req_started := o_req_started m; o_headers := o_headers m;
         o_first_byte := o_first_byte m; o_first_pev := o_first_pev m; o_invalid := o_invalid m |}
    else m
  | MOutputDelta =>
    if is_none (x_first_out m) then
      {| x_started := x_started m; x_ended := x_ended m; x_reason := x_reason m; x_first_out := Some ts;
         o_endpoint := o_endpoint m; o_model := o_model m; o_status := o_status m; o_request_id := o_request_id m;
         o_content_type := o_content_type m; o_req_started := o_req_started m; o_headers := o_headers m;
         o_first_byte := o_first_byte m; o_first_pev := o_first_pev m; o_invalid := o_invalid m |}
    else m
  | MSessionEnded reason =>
    if is_none (x_ended m) then
      {| x_started := x_started m; x_ended := Some ts; x_reason := Some reason; x_first_out := x_first_out m;
         o_endpoint := o_endpoint m; o_model := o_model m; o_status := o_status m; o_request_id := o_request_id m;
         o_content_type := o_content_type m; o_req_started := o_req_started m; o_headers := o_headers m;
         o_first_byte := o_first_byte m; o_first_pev := o_first_pev m; o_invalid := o_invalid m |}
    else m
  | MReqStarted idx endpoint model =>
    if (idx =? 0) && is_none (o_req_started m) then
      {| x_started := x_started m; x_ended := x_ended m; x_reason := x_reason m; x_first_out := x_first_out m;
         o_endpoint := Some endpoint; o_model := model; o_status := o_status m; o_request_id := o_request_id m;
         o_content_type := o_content_type m; o_req_started := Some ts; o_headers := o_headers m;
         o_first_byte := o_first_byte m; o_first_pev := o_first_pev m; o_invalid := o_invalid m |}
    else m
  | MRespHeaders idx status rid ct =>
    if (idx =? 0) && is_none (o_headers m) then
      {| x_started := x_started m; x_ended := x_ended m; x_reason := x_reason m; x_first_out := x_first_out m;
         o_endpoint := o_endpoint m; o_model := o_model m; o_status := Some status; o_request_id := rid;
         o_content_type := ct; o_req_started := o_req_started m; o_headers := Some ts;
         o_first_byte := o_first_byte m; o_first_pev := o_first_pev m; o_invalid := o_invalid m |}
    else m
  | MFirstByte idx =>
    if (idx =? 0) && is_none (o_first_byte m) then
      {| x_started := x_started m; x_ended := x_ended m; x_reason := x_reason m; x_first_out := x_first_out m;
         o_endpoint := o_endpoint m; o_model := o_model m; o_status := o_status m; o_request_id := o_request_id m;
         o_content_type := o_content_type m; o_req_started := o_req_started m; o_headers := o_headers m;
         o_first_byte := Some ts; o_first_pev := o_first_pev m; o_invalid := o_invalid m |}
    else m
  | MProvider is_or invalid _ _ _ =>
    if is_or then
      {| x_started := x_started m; x_ended := x_ended m; x_reason := x_reason m; x_first_out := x_first_out m;
         o_endpoint := o_endpoint m; o_model := o_model m; o_status := o_status m; o_request_id := o_request_id m;
         o_content_type := o_content_type m; o_req_started := o_req_started m; o_headers := o_headers m;
         o_first_byte := o_first_byte m;
         o_first_pev := (if is_none (o_first_pev m) then Some ts else o_first_pev m);
         o_invalid := o_invalid m || invalid |}
    else m
  | MToolFailed _ | MOther => m
  end.

(* delta(start, end) = Some(end?.saturating_sub(start?)) *)
Definition delta (a b : option N) : option N :=
  match b, a with Some e, Some s => Some (e - s) | _, _ => None end.

(* ---------- serde_json::to_string of a Value (object keys in BTreeMap order) ---------- *)
Definition hex4 (c : N) : str :=
  [48; 48; hexdigit (c / 16); hexdigit (c mod 16)].          (* only used below 32 *)
Definition jesc (c : N) : str :=
  if c =? 34 then [92; 34]
  else if c =? 92 then [92; 92]
  else if c =? 8 then [92; 98]
  else if c =? 12 then [92; 102]
  else if c =? 10 then [92; 110]
  else if c =? 13 then [92; 114]
  else if c =? 9 then [92; 116]
  else if c <? 32 then [92; 117] ++ hex4 c
  else [c].
Definition jstr (s : str) : str := 34 :: concat (map jesc s) ++ [34].
Definition J_null : str := [110;117;108;108].
Definition jnum (o : option N) : str := match o with Some n => dec n | None => J_null end.
Definition jostr (o : option str) : str := match o with Some s => jstr s | None => J_null end.
Definition jbool (b : bool) : str := if b then [116;114;117;101] else [102;97;108;115;101].
Fixpoint jjoin (l : list str) : str :=
  match l with [] => [] | [x] => x | x :: r => x ++ [44] ++ jjoin r end.
Definition jarr (l : list str) : str := [91] ++ jjoin (map jstr l) ++ [93].
Definition jfield (name : list N) (v : str) : str := [34] ++ name ++ [34; 58] ++ v.
Definition jobj (fields : list str) : str := [123] ++ jjoin fields ++ [125].

(* keys *)
Definition K_content_type := [99;111;110;116;101;110;116;95;116;121;112;101].
Definition K_endpoint := [101;110;100;112;111;105;110;116].
Definition K_first_byte_ms := [102;105;114;115;116;95;98;121;116;101;95;109;115].
Definition K_first_output_ms := [102;105;114;115;116;95;111;117;116;112;117;116;95;109;115].
Definition K_first_provider_event_ms :=
  [102;105;114;115;116;95;112;114;111;118;105;100;101;114;95;101;118;101;110;116;95;109;115].
Definition K_headers_ms := [104;101;97;100;101;114;115;95;109;115].
Definition K_invalid_json := [105;110;118;97;108;105;100;95;106;115;111;110].
Definition K_model := [109;111;100;101;108].
Definition K_request_id := [114;101;113;117;101;115;116;95;105;100].
Definition K_session_overhead_ms := [115;101;115;115;105;111;110;95;111;118;101;114;104;101;97;100;95;109;115].
Definition K_status := [115;116;97;116;117;115].
Definition K_e2e_ms := [101;50;101;95;109;115].
Definition K_openresponses := [111;112;101;110;114;101;115;112;111;110;115;101;115].
Definition K_provider_errors := [112;114;111;118;105;100;101;114;95;101;114;114;111;114;115].
Definition K_provider_invalid_json :=
  [112;114;111;118;105;100;101;114;95;105;110;118;97;108;105;100;95;106;115;111;110].
Definition K_provider_response_errors :=
  [112;114;111;118;105;100;101;114;95;114;101;115;112;111;110;115;101;95;101;114;114;111;114;115].
Definition K_session_end_reason := [115;101;115;115;105;111;110;95;101;110;100;95;114;101;97;115;111;110].
Definition K_session_ended_ms := [115;101;115;115;105;111;110;95;101;110;100;101;100;95;109;115].
Definition K_session_started_ms := [115;101;115;115;105;111;110;95;115;116;97;114;116;101;100;95;109;115].
Definition K_tool_failed := [116;111;111;108;95;102;97;105;108;101;100].
Definition K_ttft_ms := [116;116;102;116;95;109;115].

Definition or_json (m : metrics) : str :=
  if is_none (o_req_started m) then J_null
  else jobj
    [ jfield K_content_type (jostr (o_content_type m));
      jfield K_endpoint (jostr (o_endpoint m));
      jfield K_first_byte_ms (jnum (delta (o_req_started m) (o_first_byte m)));
      jfield K_first_output_ms (jnum (delta (o_req_started m) (x_first_out m)));
      jfield K_first_provider_event_ms (jnum (delta (o_req_started m) (o_first_pev m)));
      jfield K_headers_ms (jnum (delta (o_req_started m) (o_headers m)));
      jfield K_invalid_json (jbool (o_invalid m));
      jfield K_model (jostr (o_model m));
      jfield K_request_id (jostr (o_request_id m));
      jfield K_session_overhead_ms (jnum (delta (x_started m) (o_req_started m)));
      jfield K_status (jnum (o_status m)) ].

(* the metrics view's accumulators next to RunMetrics *)
Record mstate := {
  ms_metrics : metrics; ms_failed : list str; ms_perrs : list str; ms_prerrs : list str; ms_pinv : list str }.
Definition mstate0 : mstate :=
  {| ms_metrics := metrics0; ms_failed := []; ms_perrs := []; ms_prerrs := []; ms_pinv := [] |}.

Definition metrics_json (s : mstate) : str :=
  let m := ms_metrics s in
  jobj
    [ jfield K_e2e_ms (jnum (delta (x_started m) (x_ended m)));
      jfield K_openresponses (or_json m);
      jfield K_provider_errors (jarr (ms_perrs s));
      jfield K_provider_invalid_json (jarr (ms_pinv s));
      jfield K_provider_response_errors (jarr (ms_prerrs s));
      jfield K_session_end_reason (jostr (x_reason m));
      jfield K_session_ended_ms (jnum (x_ended m));
      jfield K_session_started_ms (jnum (x_started m));
      jfield K_tool_failed (jarr (ms_failed s));
      jfield K_ttft_ms (jnum (delta (x_started m) (x_first_out m))) ].

(* render_message, Metrics view, one valid frame: (state', bytes written) *)
Definition metrics_step (s : mstate) (f : mframe) : mstate * str :=
  let m := m_observe (ms_metrics s) f in
  let s' :=
    match m_kind f with
    | MToolFailed e =>
      {| ms_metrics := m; ms_failed := ms_failed s ++ [e]; ms_perrs := ms_perrs s; ms_prerrs := ms_prerrs s;
         ms_pinv := ms_pinv s |}
    | MProvider _ invalid es rs raw =>
      {| ms_metrics := m; ms_failed := ms_failed s; ms_perrs := ms_perrs s ++ es; ms_prerrs := ms_prerrs s ++ rs;
         ms_pinv := if invalid then match raw with Some r => ms_pinv s ++ [r] | None => ms_pinv s end
                    else ms_pinv s |}
    | _ =>
      {| ms_metrics := m; ms_failed := ms_failed s; ms_perrs := ms_perrs s; ms_prerrs := ms_prerrs s;
         ms_pinv := ms_pinv s |}
    end in
  (s', if is_ended (m_kind f) then metrics_json s' ++ [10] else []).

(* ---------- the caller's loop ----------
   result: bytes written, how the loop ended (0 the lines ran out, 1 stopped after a session_ended,
   2 a line was not a frame), and the index of the line it ended at *)
Definition END_EXHAUSTED : N := 0.
Definition END_STOPPED : N := 1.
Definition END_ERROR : N := 2.

Fixpoint metrics_run (s : mstate) (i : N) (ls : list line) : str * N * N :=
  match ls with
  | [] => ([], END_EXHAUSTED, i)
  | l :: r =>
    match l_frame l with
    | None => ([], END_ERROR, i)
    | Some f =>
      let '(s', w) := metrics_step s f in
      if is_ended (m_kind f) then (w, END_STOPPED, i)
      else let '(w', e, j) := metrics_run s' (i + 1) r in (w ++ w', e, j)
    end
  end.

Fixpoint raw_run (i : N) (ls : list line) : str * N * N :=
  match ls with
  | [] => ([], END_EXHAUSTED, i)
  | l :: r =>
    match l_frame l with
    | None => ([], END_ERROR, i)
    | Some f =>
      let w := l_text l ++ [10] in
      if is_ended (m_kind f) then (w, END_STOPPED, i)
      else let '(w', e, j) := raw_run (i + 1) r in (w ++ w', e, j)
    end
  end.

Definition metrics_view (ls : list line) : str * N * N := metrics_run mstate0 0 ls.
Definition raw_view (ls : list line) : str * N * N := raw_run 0 ls.

(* ---------- correspondence plumbing ---------- *)
Definition enc_res (r : str * N * N) : list N :=
  let '(w, e, i) := r in e :: i :: nlen w :: w.
Record case := { c_lines : list line; c_raw : list N; c_metrics : list N }.
Definition check_case (c : case) : bool :=
  lN_eqb (enc_res (raw_view (c_lines c))) (c_raw c) && lN_eqb (enc_res (metrics_view (c_lines c))) (c_metrics c).
Definition model_obs (c : case) : list N :=
  enc_res (raw_view (c_lines c)) ++ enc_res (metrics_view (c_lines c)).
