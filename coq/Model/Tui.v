(* C20 — executable model of rip-tui's FrameStore (frame_store.rs) and of the TuiState::update fold
   (state.rs:327-468, 470-742; tools, tasks and jobs maps).  No proofs here (Proofs/TuiProofs.v). *)
From RipV Require Import Base.Prelude.

(* ---------- strings: lists of code points, UTF-8 widths ---------- *)
Definition str := list N.
Definition cpw (c : N) : N :=
  if c <? 128 then 1 else if c <? 2048 then 2 else if c <? 65536 then 3 else 4.
Definition blen (s : str) : N := sumN (map cpw s).

(* `while start < len && !is_char_boundary(start) { start += 1 }; s[start..]`:
   drop whole characters until the requested byte offset is consumed; an offset inside a
   character moves forward to the next boundary (N subtraction saturates at 0). *)
Fixpoint drop_to (start : N) (s : str) : str :=
  match s with
  | [] => []
  | c :: r => if start =? 0 then s else drop_to (start - cpw c) r
  end.

(* push_output / push_preview share this shape (state.rs:444-461, 725-738) *)
Definition push_bounded (maxb : N) (target chunk : str) : str * bool :=
  match chunk with
  | [] => (target, false)
  | _ =>
    let t := target ++ chunk in
    if blen t <=? maxb then (t, false)
    else (drop_to (blen t - maxb / 2) t, true)
  end.

(* char::is_whitespace (Unicode White_Space) *)
Definition is_ws (c : N) : bool :=
  ((9 <=? c) && (c <=? 13)) || (c =? 32) || (c =? 133) || (c =? 160) || (c =? 5760)
  || ((8192 <=? c) && (c <=? 8202)) || (c =? 8232) || (c =? 8233) || (c =? 8239)
  || (c =? 8287) || (c =? 12288).

(* ---------- frame store ---------- *)
Record frame := { fseq : N; fid : N }.           (* fid: identity of the pushed frame *)
Record fstore := { base : N; frames : list frame; maxf : nat }.

Definition fs_new (m : nat) : fstore := {| base := 0; frames := []; maxf := Nat.max m 1 |}.

Definition fs_push (s : fstore) (f : frame) : fstore :=
  let b0 := match frames s with [] => fseq f | _ => base s end in
  if Nat.leb (maxf s) (length (frames s))
  then {| base := sat_add64 b0 1; frames := tl (frames s) ++ [f]; maxf := maxf s |}
  else {| base := b0; frames := frames s ++ [f]; maxf := maxf s |}.

(* the slot `seq - base_seq` when it lies inside the window (frame_store.rs before the second repair) *)
Definition fs_slot_of_seq (s : fstore) (q : N) : option nat :=
  match frames s with
  | [] => None
  | _ => if q <? base s then None
         else if nlen (frames s) <=? q - base s then None   (* compared in N: q - base may be huge *)
              else Some (N.to_nat (q - base s))
  end.

(* index_of_seq as repaired (fix 72a656f: the frame in that slot must carry the requested seq) *)
Definition fs_index_of_seq (s : fstore) (q : N) : option nat :=
  match fs_slot_of_seq s q with
  | None => None
  | Some i => match nth_error (frames s) i with
              | Some f => if fseq f =? q then Some i else None
              | None => None
              end
  end.

(* get_by_seq: the frame at index_of_seq *)
Definition fs_get_by_seq (s : fstore) (q : N) : option frame :=
  match fs_index_of_seq s q with
  | None => None
  | Some i => nth_error (frames s) i
  end.

(* get_by_seq as it was before the repairs (kept for the refutation witness S14) *)
Definition fs_get_by_seq_unchecked (s : fstore) (q : N) : option frame :=
  match fs_slot_of_seq s q with
  | None => None
  | Some i => nth_error (frames s) i
  end.

Definition fs_first_seq (s : fstore) : option N := option_map fseq (hd_error (frames s)).
Definition fs_last_seq (s : fstore) : option N := option_map fseq (hd_error (rev (frames s))).

(* ---------- events as far as update() inspects them ---------- *)
Inductive ekind :=
| KSessionStarted (input : str)
| KOutputDelta (d : str)
| KSessionEnded
| KToolStarted (id : N)
| KToolStdout (id : N) (c : str)
| KToolStderr (id : N) (c : str)
  (* arts: the artifact ids (64 hex digits, here as numbers) found anywhere inside the frame's `artifacts` JSON *)
| KToolEnded (id : N) (arts : list N)
| KToolFailed (id : N)
| KTaskSpawned (id : N) (arts : list N)
| KTaskStatus (id : N) (st : N) (arts : list N)  (* 0 queued 1 running 2 exited 3 cancelled 4 failed *)
| KTaskDelta (id : N) (stream : N) (c : str) (arts : list N)  (* 0 stdout 1 stderr 2 pty *)
| KCheckpointFailed
| KProviderEvent (invalid_json errors resp_errors : bool) (is_openresponses : bool)
| KContextSelecting                          (* continuity_context_selection_decided *)
| KContextCompiled (bundle : N)              (* continuity_context_compiled: bundle artifact id *)
| KCkptCreated (summary : N)                 (* continuity_compaction_checkpoint_created: summary artifact id *)
| KOrRequest (body : N)                      (* openresponses_request: body artifact id *)
| KOrRequestStarted
| KOrResponseHeaders
| KOrResponseFirstByte
| KJobSpawned (id : N)
| KJobEnded (id : N)
| KOther.

Record ev := { eseq : N; ets : N; ekd : ekind; eident : N }.

Definition is_error_event (k : ekind) : bool :=
  match k with
  | KToolFailed _ => true
  | KCheckpointFailed => true
  | KTaskStatus _ st _ => st =? 4
  | KProviderEvent a b c _ => a || b || c
  | _ => false
  end.

(* sets of artifact ids are association lists with unit values (BTreeSet order = numeric order of the ids) *)
Definition idset := list (N * unit).
Record tool := { t_out : str; t_err : str; t_status : N; t_arts : idset }.   (* 0 running 1 ended 2 failed *)
Record task := { k_status : N; k_out : str; k_err : str; k_pty : str; k_arts : idset }.

(* sorted association lists keyed by N (BTreeMap order; the harness uses fixed-width ids) *)
Fixpoint map_put {V} (k : N) (v : V) (m : list (N * V)) : list (N * V) :=
  match m with
  | [] => [(k, v)]
  | (k', v') :: r =>
    if k <? k' then (k, v) :: m
    else if k =? k' then (k, v) :: r
    else (k', v') :: map_put k v r
  end.
Fixpoint map_get {V} (k : N) (m : list (N * V)) : option V :=
  match m with
  | [] => None
  | (k', v') :: r => if k =? k' then Some v' else map_get k r
  end.

Record tui := {
  st_frames : fstore;
  st_selected : option N;
  st_auto_follow : bool;
  st_output : str;
  st_truncated : bool;
  st_tools : list (N * tool);
  st_tasks : list (N * task);
  st_jobs : list (N * N);                  (* job id -> 0 running / 1 ended *)
  st_artifacts : idset;
  st_ctx : option (N * option N);          (* context: (0 selecting | 1 compiled, bundle artifact id) *)
  st_or_req : option N; st_or_headers : option N; st_or_first_byte : option N; st_or_first_pev : option N;
  st_start : option N;
  st_first_out : option N;
  st_end : option N;
  st_last_err : option N;
  st_last_ev : option N;
  st_max_out : N;
  st_max_prev : N
}.

Definition tui_new (max_frames : nat) (max_out : N) (auto_follow : bool) : tui :=
  {| st_frames := fs_new max_frames; st_selected := None; st_auto_follow := auto_follow;
     st_output := []; st_truncated := false; st_tools := []; st_tasks := []; st_jobs := [];
     st_artifacts := []; st_ctx := None;
     st_or_req := None; st_or_headers := None; st_or_first_byte := None; st_or_first_pev := None;
     st_start := None; st_first_out := None; st_end := None; st_last_err := None;
     st_last_ev := None; st_max_out := N.max max_out 1; st_max_prev := 8192 |}.

Definition or_set (o : option N) (v : N) : option N := match o with Some _ => o | None => Some v end.

Definition out_push (maxb : N) (ot : str * bool) (d : str) : str * bool :=
  let '(t, tr) := push_bounded maxb (fst ot) d in (t, snd ot || tr).

Definition push_user_prompt (maxb : N) (ot : str * bool) (input : str) : str * bool :=
  if forallb is_ws input then ot
  else out_push maxb (out_push maxb (out_push maxb ot [89; 111; 117; 58; 32]) input) [10; 10].

Definition prev_push (maxb : N) (p c : str) : str := fst (push_bounded maxb p c).

Definition set_add_all (xs : list N) (m : idset) : idset := fold_left (fun acc x => map_put x tt acc) xs m.

Definition upd_tools (s : tui) (k : ekind) : list (N * tool) :=
  let m := st_tools s in
  let mp := st_max_prev s in
  match k with
  | KToolStarted id => map_put id {| t_out := []; t_err := []; t_status := 0; t_arts := [] |} m
  | KToolStdout id c =>
    match map_get id m with
    | Some t => map_put id {| t_out := prev_push mp (t_out t) c; t_err := t_err t; t_status := t_status t; t_arts := t_arts t |} m
    | None => m end
  | KToolStderr id c =>
    match map_get id m with
    | Some t => map_put id {| t_out := t_out t; t_err := prev_push mp (t_err t) c; t_status := t_status t; t_arts := t_arts t |} m
    | None => m end
  | KToolEnded id arts =>
    match map_get id m with
    | Some t => map_put id {| t_out := t_out t; t_err := t_err t; t_status := 1; t_arts := set_add_all arts (t_arts t) |} m
    | None => m end
  | KToolFailed id =>
    match map_get id m with
    | Some t => map_put id {| t_out := t_out t; t_err := t_err t; t_status := 2; t_arts := t_arts t |} m
    | None => m end
  | _ => m
  end.

Definition upd_tasks (s : tui) (k : ekind) : list (N * task) :=
  let m := st_tasks s in
  let mp := st_max_prev s in
  match k with
  | KTaskSpawned id arts =>
    map_put id {| k_status := 0; k_out := []; k_err := []; k_pty := []; k_arts := set_add_all arts [] |} m
  | KTaskStatus id st arts =>
    match map_get id m with
    | Some t => map_put id {| k_status := st; k_out := k_out t; k_err := k_err t; k_pty := k_pty t;
                              k_arts := set_add_all arts (k_arts t) |} m
    | None => map_put id {| k_status := st; k_out := []; k_err := []; k_pty := []; k_arts := set_add_all arts [] |} m
    end
  | KTaskDelta id stream c arts =>
    match map_get id m with
    | Some t =>
      let a := set_add_all arts (k_arts t) in
      if stream =? 0 then map_put id {| k_status := k_status t; k_out := prev_push mp (k_out t) c; k_err := k_err t; k_pty := k_pty t; k_arts := a |} m
      else if stream =? 1 then map_put id {| k_status := k_status t; k_out := k_out t; k_err := prev_push mp (k_err t) c; k_pty := k_pty t; k_arts := a |} m
      else map_put id {| k_status := k_status t; k_out := k_out t; k_err := k_err t; k_pty := prev_push mp (k_pty t) c; k_arts := a |} m
    | None => m
    end
  | _ => m
  end.

(* the global artifact set: ids are added only where the frame reaches an entry (tool_ended / task output of an
   unknown id add nothing), plus the three frame kinds that name an artifact directly *)
Definition upd_artifacts (s : tui) (k : ekind) : idset :=
  let a := st_artifacts s in
  match k with
  | KToolEnded id arts => match map_get id (st_tools s) with Some _ => set_add_all arts a | None => a end
  | KTaskSpawned _ arts => set_add_all arts a
  | KTaskStatus _ _ arts => set_add_all arts a
  | KTaskDelta id _ _ arts => match map_get id (st_tasks s) with Some _ => set_add_all arts a | None => a end
  | KContextCompiled x | KCkptCreated x | KOrRequest x => map_put x tt a
  | _ => a
  end.

(* continuity_job_spawned / continuity_job_ended both insert (replace) the entry of that job id *)
Definition upd_jobs (s : tui) (k : ekind) : list (N * N) :=
  match k with
  | KJobSpawned id => map_put id 0 (st_jobs s)
  | KJobEnded id => map_put id 1 (st_jobs s)
  | _ => st_jobs s
  end.

Definition update (s : tui) (e : ev) : tui :=
  let k := ekd e in
  let ot0 := (st_output s, st_truncated s) in
  let ot := match k with
            | KSessionStarted input => push_user_prompt (st_max_out s) ot0 input
            | KOutputDelta d => out_push (st_max_out s) ot0 d
            | _ => ot0 end in
  let start := match k with
               | KSessionStarted _ | KTaskSpawned _ _ => or_set (st_start s) (ets e)
               | _ => st_start s end in
  let fo := match k with KOutputDelta _ => or_set (st_first_out s) (ets e) | _ => st_first_out s end in
  let en := match k with
            | KSessionEnded => or_set (st_end s) (ets e)
            | KTaskStatus _ st _ => if (st =? 2) || (st =? 3) || (st =? 4) then or_set (st_end s) (ets e) else st_end s
            | _ => st_end s end in
  {| st_frames := fs_push (st_frames s) {| fseq := eseq e; fid := eident e |};
     st_selected := if st_auto_follow s then Some (eseq e)
                    else match st_selected s with None => Some (eseq e) | o => o end;
     st_auto_follow := st_auto_follow s;
     st_output := fst ot; st_truncated := snd ot;
     st_tools := upd_tools s k; st_tasks := upd_tasks s k; st_jobs := upd_jobs s k;
     st_artifacts := upd_artifacts s k;
     st_ctx := match k with
               | KContextSelecting => Some (0, None)
               | KContextCompiled b => Some (1, Some b)
               | _ => st_ctx s end;
     st_or_req := match k with KOrRequestStarted => or_set (st_or_req s) (ets e) | _ => st_or_req s end;
     st_or_headers := match k with KOrResponseHeaders => or_set (st_or_headers s) (ets e) | _ => st_or_headers s end;
     st_or_first_byte := match k with KOrResponseFirstByte => or_set (st_or_first_byte s) (ets e) | _ => st_or_first_byte s end;
     st_or_first_pev := match k with
                        | KProviderEvent _ _ _ true => or_set (st_or_first_pev s) (ets e)
                        | _ => st_or_first_pev s end;
     st_start := start; st_first_out := fo; st_end := en;
     st_last_err := if is_error_event k then Some (eseq e) else st_last_err s;
     st_last_ev := Some (ets e);
     st_max_out := st_max_out s; st_max_prev := st_max_prev s |}.

Definition run_tui (max_frames : nat) (max_out : N) (af : bool) (evs : list ev) : tui :=
  fold_left update evs (tui_new max_frames max_out af).

Definition selected_event (s : tui) : option frame :=
  match st_selected s with None => None | Some q => fs_get_by_seq (st_frames s) q end.

(* ---------- observation encoding (flat list N, mirrored by the harness) ---------- *)
Definition enc_opt (o : option N) : list N := match o with None => [0] | Some x => [1; x] end.
Definition enc_str (s : str) : list N := nlen s :: s.
Definition enc_bool (b : bool) : list N := [if b then 1 else 0].
Definition enc_set (m : idset) : list N := enc_str (map fst m).
Definition enc_tool (kt : N * tool) : list N :=
  fst kt :: t_status (snd kt) :: enc_str (t_out (snd kt)) ++ enc_str (t_err (snd kt)) ++ enc_set (t_arts (snd kt)).
Definition enc_task (kt : N * task) : list N :=
  fst kt :: k_status (snd kt) :: enc_str (k_out (snd kt)) ++ enc_str (k_err (snd kt)) ++ enc_str (k_pty (snd kt))
  ++ enc_set (k_arts (snd kt)).
Definition enc_ctx (c : option (N * option N)) : list N :=
  match c with None => [0] | Some (st, b) => 1 :: st :: enc_opt b end.

Definition observe (s : tui) (probes : list N) : list N :=
  let fs := st_frames s in
  nlen (frames fs) :: enc_opt (fs_first_seq fs) ++ enc_opt (fs_last_seq fs)
  ++ enc_str (map fid (frames fs))
  ++ enc_opt (st_selected s) ++ enc_opt (option_map fid (selected_event s))
  ++ enc_str (st_output s) ++ enc_bool (st_truncated s)
  ++ nlen (st_tools s) :: concat (map enc_tool (st_tools s))
  ++ nlen (st_tasks s) :: concat (map enc_task (st_tasks s))
  ++ nlen (st_jobs s) :: concat (map (fun kj => [fst kj; snd kj]) (st_jobs s))
  ++ enc_set (st_artifacts s) ++ enc_ctx (st_ctx s)
  ++ enc_opt (st_or_req s) ++ enc_opt (st_or_headers s) ++ enc_opt (st_or_first_byte s) ++ enc_opt (st_or_first_pev s)
  ++ enc_opt (st_start s) ++ enc_opt (st_first_out s) ++ enc_opt (st_end s)
  ++ enc_opt (st_last_err s) ++ enc_opt (st_last_ev s)
  ++ concat (map (fun q => enc_opt (option_map fid (fs_get_by_seq fs q))
                            ++ enc_opt (option_map N.of_nat (fs_index_of_seq fs q))) probes).

Record case := {
  c_max_frames : nat; c_max_out : N; c_af : bool; c_evs : list ev; c_probes : list N;
  c_expect : list N }.

Definition check_case (c : case) : bool :=
  lN_eqb (observe (run_tui (c_max_frames c) (c_max_out c) (c_af c) (c_evs c)) (c_probes c)) (c_expect c).

Definition model_obs (c : case) : list N :=
  observe (run_tui (c_max_frames c) (c_max_out c) (c_af c) (c_evs c)) (c_probes c).
