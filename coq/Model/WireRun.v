(* C03 — who numbers a session's frames: the RUN (crates/ripd/src/session.rs).  Every frame of a run is built from the
   run-local counter (`seq: *req.seq` / `*self.seq` / `seq` inside an `Event { .. }` literal or handed to a helper that
   builds the frame), handed to the emitter (`sink.emit(frame)`: snapshot buffer, channel, log - Model/Wire.v `eo_sess`)
   and then the counter is bumped.  The three sinks receive whatever number the frame was BUILT with, so the views agree
   whatever the numbering is (c03_views_agree_every_size) - but replaying the store from disk goes through the validated
   replay (`EventLog::replay_validated`: every stream 0,1,2,.. in file order), which refuses the whole store when a run
   built a frame from a counter value that another frame took as well.
   A run's code is modelled as the list of its statements that touch the counter; frames live in named slots between
   being built and being emitted.  The HEAD of a provider request (`stream_openresponses_request` from the request-dump
   configuration to `request.send()`) is re-read from the source on every run (tools/gen/request_head.py): it is the one
   place where a configuration switch (RIP_OPENRESPONSES_DUMP_REQUEST) puts one more emit site in front of another. *)
From RipV Require Import Base.Prelude.

Inductive rstmt :=
| RBuild (slot : N)     (* a frame is built: its seq field is read from the counter NOW *)
| REmit (slot : N)      (* the frame in the slot goes to the emitter (all three sinks) *)
| RBump.                (* counter += 1 *)

Record rstate := { r_cnt : N; r_slots : list (N * N); r_out : list (N * N) (* (slot, seq) in emission order *) }.

Fixpoint slot_seq (t : N) (l : list (N * N)) : option N :=
  match l with [] => None | x :: r => if fst x =? t then Some (snd x) else slot_seq t r end.

Definition rstep (st : rstate) (x : rstmt) : rstate :=
  match x with
  | RBuild t => {| r_cnt := r_cnt st; r_slots := (t, r_cnt st) :: r_slots st; r_out := r_out st |}
  | REmit t => match slot_seq t (r_slots st) with
               | Some n => {| r_cnt := r_cnt st; r_slots := r_slots st; r_out := r_out st ++ [(t, n)] |}
               | None => st     (* not expressible in Rust: a binding is emitted that was never built *)
               end
  | RBump => {| r_cnt := r_cnt st + 1; r_slots := r_slots st; r_out := r_out st |}
  end.

Definition rstart (c : N) : rstate := {| r_cnt := c; r_slots := []; r_out := [] |}.
Definition rrun_from (st : rstate) (p : list rstmt) : rstate := fold_left rstep p st.
Definition rrun (c : N) (p : list rstmt) : rstate := rrun_from (rstart c) p.

(* an emit site as the code writes it everywhere: build from the counter, emit, bump *)
Definition site (t : N) : list rstmt := [RBuild t; REmit t; RBump].

(* well-formed: the program is a concatenation of sites *)
Fixpoint wf_run (p : list rstmt) : bool :=
  match p with
  | [] => true
  | RBuild t :: REmit t' :: RBump :: r => (t =? t') && wf_run r
  | _ => false
  end.

Fixpoint sites_of (p : list rstmt) : list N :=
  match p with
  | RBuild t :: _ :: _ :: r => t :: sites_of r
  | _ => []
  end.

(* frames numbered c, c+1, .. *)
Fixpoint number (c : N) (ts : list N) : list (N * N) :=
  match ts with [] => [] | t :: r => (t, c) :: number (c + 1) r end.

Fixpoint nums_from (c : N) (l : list (N * N)) : bool :=
  match l with [] => true | x :: r => (snd x =? c) && nums_from (c + 1) r end.

(* ---------- the head of a provider request, statement by statement, with the switch ----------
   (true, x): x is executed only when request capture produced a frame (RIP_OPENRESPONSES_DUMP_REQUEST on) *)
Definition head := list (bool * rstmt).
Definition head_prog (capture : bool) (h : head) : list rstmt :=
  map snd (filter (fun x => capture || negb (fst x)) h).
Definition wf_head (h : head) : bool := wf_run (head_prog true h) && wf_run (head_prog false h).

(* slots of the head: 0 = the capture frame `openresponses_request`, 1 = `openresponses_request_started` *)
Definition SLOT_CAPTURE : N := 0.
Definition SLOT_STARTED : N := 1.
(* session.rs as written *)
Definition head_code : head :=
  [(true, RBuild 0); (true, REmit 0); (true, RBump); (false, RBuild 1); (false, REmit 1); (false, RBump)].
(* seeded C03-10: request_started built first, emitted after the capture frame *)
Definition head_started_built_early : head :=
  [(false, RBuild 1); (true, RBuild 0); (true, REmit 0); (true, RBump); (false, REmit 1); (false, RBump)].
(* seeded C01-11: the capture frame built first, emitted after request_started *)
Definition head_capture_emitted_late : head :=
  [(true, RBuild 0); (false, RBuild 1); (false, REmit 1); (false, RBump); (true, REmit 0); (true, RBump)].

(* ---------- correspondence (harness/src/bin/c03/matrix.rs): one head of one real run ---------- *)
Record head_case := { hc_capture : bool; hc_base : N; hc_frames : list (N * N) }.

Fixpoint pairs_eqb (a b : list (N * N)) : bool :=
  match a, b with
  | [], [] => true
  | x :: r, y :: r' => (fst x =? fst y) && (snd x =? snd y) && pairs_eqb r r'
  | _, _ => false
  end.

Definition head_out (h : head) (c : head_case) : list (N * N) := r_out (rrun (hc_base c) (head_prog (hc_capture c) h)).
Definition check_head_with (h : head) (c : head_case) : bool := pairs_eqb (head_out h c) (hc_frames c).
Definition head_obs_with (h : head) (c : head_case) : list N := flat_map (fun x => [fst x; snd x]) (head_out h c).
