(* C07 — run lifecycle: executable model of the control skeleton of
     crates/ripd/src/session.rs   run_session (85-318), run_openresponses_agent_loop (1183-1363),
                                  stream_openresponses_request (1378-1563)
     crates/ripd/src/server.rs    thread_post_message (682-764), send_input (503-521),
                                  thread_compaction_auto (1118-1175)
     crates/ripd/src/continuities.rs  compaction_auto_run_spawned_job_v1 (2646-2919)
     crates/rip-tools/src/runtime.rs  ToolRunner::run (152-243)
     crates/rip-kernel/src/lib.rs     Session::next_event (566-674)
   as a function of: input kind x compile outcome x per-request provider stream outcome x tool
   outcomes x which continuity appends succeed.  Output: the frames written to the log, in program
   order, session frames with the seq the code computes for them.
   Model only (no proofs).  Proofs: Proofs/RunLifecycleProofs.v, statements: Props/C07.v. *)
From RipV Require Import Base.Prelude.

(* ---------- frame alphabets ---------- *)
(* SessionEnded.reason / ContinuityRunEnded.reason *)
Definition R_COMPLETED : N := 0.
Definition R_PROVIDER_ERROR : N := 1.
Definition R_INVALID_REQUEST : N := 2.
Definition R_MAX_TOOL_CALLS : N := 3.
Definition R_COMPILE_FAILED : N := 4.
Definition R_UNKNOWN : N := 5.

(* provider_openresponses.rs:68 *)
Definition MAX_TOOL_CALLS : N := 32.

(* session-stream frame kinds (EventKind variants a run can emit) *)
Inductive sk :=
| SStarted | SOutput | SEnded (r : N)
| SProvider | SReqStarted | SHeaders | SFirstByte
| SToolStarted | SToolStdout | SToolStderr | SToolEnded | SToolFailed
| SCkCreated | SCkRewound | SCkFailed
| SHttpErr (len sum : N)        (* provider_event whose error text is the quoted HTTP error: byte length, Adler-32 *)
| SToolStdoutT (len sum : N).   (* tool_stdout whose chunk the model predicts (a cut read): byte length, Adler-32 *)

(* continuity (thread) frame kinds; run = the run's session id, mid = message id *)
Inductive ck :=
| CMessage (mid : N)
| CRunSpawned (run mid : N)
| CSelection (run mid : N)
| CCompiled (run : N)
| CSideEffects (run : N)
| CCursor (run : N)
| CRunEnded (run mid reason : N)
| CCheckpoint (j : N)                 (* checkpoint created by job j *)
| CJobSpawned (j : N)
| CJobEnded (j status : N).           (* 0 completed, 1 failed *)

(* one line of events.jsonl: a session frame (stream id, seq, kind) or a frame of the thread *)
Inductive ev :=
| ES (sid seq : N) (k : sk)
| EC (k : ck).

(* ---------- emission helpers ---------- *)
(* `emit(Event{seq: *seq, ..}); *seq += 1` repeated over a block of kinds *)
Fixpoint frames_at (sid seq : N) (ks : list sk) : list ev :=
  match ks with
  | [] => []
  | k :: r => ES sid seq k :: frames_at sid (seq + 1) r
  end.

(* `let _ = continuities.append_…(…)`: a failing append writes nothing and nobody notices *)
Definition capp (aok : ck -> bool) (k : ck) : list ev := if aok k then [EC k] else [].

Definition repN {A} (x : A) (n : N) : list A := repeat x (N.to_nat n).

(* ---------- texts: UTF-8 bytes, cuts, checksum ---------- *)
(* a text is given by its shape: (code point, repeat count) segments *)
Definition utf8_enc (cp : N) : list N :=
  if cp <? 128 then [cp]
  else if cp <? 2048 then [192 + cp / 64; 128 + cp mod 64]
  else if cp <? 65536 then [224 + cp / 4096; 128 + (cp / 64) mod 64; 128 + cp mod 64]
  else [240 + cp / 262144; 128 + (cp / 4096) mod 64; 128 + (cp / 64) mod 64; 128 + cp mod 64].

Fixpoint rep_bytes (c : list N) (n : nat) : list N :=
  match n with O => [] | S m => c ++ rep_bytes c m end.

Definition seg_bytes (sg : list (N * N)) : list N :=
  flat_map (fun p : N * N => rep_bytes (utf8_enc (fst p)) (N.to_nat (snd p))) sg.

Definition is_cont (b : N) : bool := (128 <=? b) && (b <? 192).
Definition char_len (b : N) : N := if b <? 192 then 1 else if b <? 224 then 2 else if b <? 240 then 3 else 4.

(* THE cut: the longest prefix of whole characters that fits in n bytes - a total function of (n, bytes);
   never an offset inside a character.  (At a lead byte the whole character is paid for; its continuation
   bytes follow for free.) *)
Fixpoint cut_floor (n : N) (l : list N) : list N :=
  match l with
  | [] => []
  | b :: r =>
      if is_cont b then b :: cut_floor n r
      else let w := char_len b in if w <=? n then b :: cut_floor (n - w) r else []
  end.

(* rip-tools builtins `read` (read.rs:79-86 + truncate_utf8, mod.rs:200-206): the byte vector is truncated to
   max_bytes first, so truncate_utf8 sees len <= max and decodes LOSSILY: the whole characters, then one
   U+FFFD when the cut fell inside a character *)
Definition read_cut (max : N) (l : list N) : list N :=
  let f := cut_floor max l in
  if nlen f <? N.min max (nlen l) then f ++ [239; 191; 189] else f.

(* Adler-32 *)
Definition adler (l : list N) : N :=
  let st := fold_left (fun (st : N * N) (b : N) => let x := (fst st + b) mod 65521 in (x, (snd st + x) mod 65521)) l (1, 0) in
  snd st * 65536 + fst st.

(* session.rs stream_openresponses_request, `!status.is_success()`:
     format!("provider http error: {status}: {body}")  with body = response.text() verbatim (no cap today);
   Gen/RunLifecycleGen.v re-reads both from the source on every run *)
Definition HTTP_ERR_PREFIX : list N :=
  [112; 114; 111; 118; 105; 100; 101; 114; 32; 104; 116; 116; 112; 32; 101; 114; 114; 111; 114; 58; 32].
Definition HTTP_ERR_SEP : list N := [58; 32].
Definition HTTP_ERR_CAP : option N := None.
Definition cap_eqb (a b : option N) : bool :=
  match a, b with None, None => true | Some x, Some y => x =? y | _, _ => false end.

Definition http_cut (cap : option N) (l : list N) : list N :=
  match cap with None => l | Some n => cut_floor n l end.

(* status = the bytes of `{status}` (code and canonical reason), body = shape of the response body *)
Definition http_err_text (status : list N) (body : list (N * N)) : list N :=
  HTTP_ERR_PREFIX ++ status ++ HTTP_ERR_SEP ++ http_cut HTTP_ERR_CAP (seg_bytes body).

(* ---------- tools (ToolRunner::run) ---------- *)
Inductive tool_res :=
| TUnknown                   (* registry miss: ToolFailed "unknown tool" *)
| TTimeout                   (* tokio timeout: ToolFailed "timeout" *)
| TDone (nout nerr : N)      (* handler returned (any exit code, incl. invalid args = 2): stdout*, stderr*, ToolEnded *)
| TReadCut (file : list (N * N)) (max : N).   (* `read` of a one-line file with max_bytes: one chunk, the cut text *)

Record tool_out := {
  t_auto : N;                (* auto checkpoint before ToolStarted: 0 none, 1 created, 2 failed *)
  t_res : tool_res }.

Definition auto_kinds (a : N) : list sk :=
  if a =? 0 then [] else if a =? 1 then [SCkCreated] else [SCkFailed].

Definition tool_kinds (t : tool_out) : list sk :=
  auto_kinds (t_auto t) ++ SToolStarted ::
  match t_res t with
  | TUnknown | TTimeout => [SToolFailed]
  | TDone o e => repN SToolStdout o ++ repN SToolStderr e ++ [SToolEnded]
  | TReadCut file max =>
      let txt := read_cut max (seg_bytes file) in [SToolStdoutT (nlen txt) (adler txt); SToolEnded]
  end.

(* one function call drained from the collector *)
Record call := {
  c_allowed : bool;          (* tool_choice_enforcement.allows_function(name) *)
  c_lock : bool;             (* requires_workspace_lock(name) *)
  c_tool : tool_out }.

(* rejected_tool_invocation_events *)
Definition rejected_kinds : list sk := [SToolStarted; SToolFailed].

Definition side_effects (sid : N) (link : option N) (aok : ck -> bool) : list ev :=
  match link with Some _ => capp aok (CSideEffects sid) | None => [] end.

(* the `for call in tool_calls` loop (session.rs:1301-1356): events, next seq, tool_call_count,
   and whether the limit was hit inside the loop *)
Fixpoint run_calls (sid : N) (link : option N) (aok : ck -> bool) (calls : list call)
         (count seq : N) : list ev * N * N * bool :=
  match calls with
  | [] => ([], seq, count, false)
  | c :: rest =>
      if MAX_TOOL_CALLS <=? count then ([], seq, count, true)
      else
        let ks := if c_allowed c then tool_kinds (c_tool c) else rejected_kinds in
        let se := if c_allowed c && c_lock c then side_effects sid link aok else [] in
        match run_calls sid link aok rest (count + 1) (seq + nlen ks) with
        | (evs, seq', count', ex) => (frames_at sid seq ks ++ se ++ evs, seq', count', ex)
        end
  end.

(* ---------- one provider request (stream_openresponses_request) ---------- *)
Inductive req_out :=
| RInvalid                       (* payload.errors() non-empty: 1 provider frame, Err "invalid_request" *)
| RSendErr                       (* request.send() failed: started, provider frame *)
| RHttpErr (status : list N) (body : list (N * N))
                                 (* non-2xx: started, headers, provider frame quoting status and body *)
| REmpty                         (* body ended before the first byte *)
| RFirstErr                      (* first chunk is a transport error *)
| RMidErr (pf : list bool)       (* frames of the events decoded so far, then a transport error *)
| ROk (pf : list bool) (has_id : bool) (calls : list call).
   (* pf: one entry per decoded SSE event (true = output_text.delta, which maps to two frames);
      has_id: some event carried response.id; calls: completed function calls by output_index *)

Definition prov_kinds (pf : list bool) : list sk :=
  flat_map (fun d : bool => if d then [SProvider; SOutput] else [SProvider]) pf.

Definition stream_kinds (r : req_out) : list sk * option N :=
  match r with
  | RInvalid => ([SProvider], Some R_INVALID_REQUEST)
  | RSendErr => ([SReqStarted; SProvider], Some R_PROVIDER_ERROR)
  | RHttpErr st body =>
      let txt := http_err_text st body in
      ([SReqStarted; SHeaders; SHttpErr (nlen txt) (adler txt)], Some R_PROVIDER_ERROR)
  | REmpty | RFirstErr => ([SReqStarted; SHeaders; SProvider], Some R_PROVIDER_ERROR)
  | RMidErr pf => ([SReqStarted; SHeaders; SFirstByte] ++ prov_kinds pf ++ [SProvider], Some R_PROVIDER_ERROR)
  | ROk pf _ _ => ([SReqStarted; SHeaders; SFirstByte] ++ prov_kinds pf, None)
  end.

(* run_openresponses_agent_loop.  `reqs` = what the provider answers to request 0, 1, 2, …; when the
   list is exhausted the provider answers an HTTP error (as the scripted provider does; by
   `agent_loop_prefix` the first MAX_TOOL_CALLS+1 answers determine the run, so a finite list is no
   restriction).  Result: events, next seq, reason, whether previous_response_id is Some. *)
Fixpoint agent_loop (sid : N) (link : option N) (aok : ck -> bool) (stateless : bool)
         (reqs : list req_out) (count seq : N) (prev followup : bool) : list ev * N * N * bool :=
  if MAX_TOOL_CALLS <=? count then ([], seq, R_MAX_TOOL_CALLS, prev)
  else if followup && negb stateless && negb prev then ([], seq, R_PROVIDER_ERROR, prev)
  else
    match reqs with
    | [] =>
        let ks := fst (stream_kinds (RHttpErr [] [])) in
        (frames_at sid seq ks, seq + nlen ks, R_PROVIDER_ERROR, prev)
    | r :: rest =>
        let ks := fst (stream_kinds r) in
        let evs0 := frames_at sid seq ks in
        let seq1 := seq + nlen ks in
        match r with
        | ROk _ has_id calls =>
            let prev' := has_id || prev in
            match calls with
            | [] => (evs0, seq1, R_COMPLETED, prev')
            | _ :: _ =>
                if negb prev' && negb stateless then (evs0, seq1, R_PROVIDER_ERROR, prev')
                else
                  match run_calls sid link aok calls count seq1 with
                  | (evs1, seq2, count', ex) =>
                      if ex then (evs0 ++ evs1, seq2, R_MAX_TOOL_CALLS, prev')
                      else
                        match agent_loop sid link aok stateless rest count' seq2 prev' true with
                        | (evs2, seq3, reason, p) => (evs0 ++ evs1 ++ evs2, seq3, reason, p)
                        end
                  end
            end
        | _ =>
            (evs0, seq1, match snd (stream_kinds r) with Some x => x | None => R_PROVIDER_ERROR end, prev)
        end
    end.

(* ---------- the tool budget's accounting: WHERE `tool_call_count += 1` sits in the `for call in tool_calls` loop ----------
   AcctEveryCall       right after the bound test, before the tool_choice refusal branch: every drained call is
                       paid for, refused or not (session.rs today);
   AcctDispatchedOnly  only in the branches that dispatch a tool: a call refused by tool_choice is free.
   Gen/RunLifecycleGen.v re-reads the placement from session.rs on every run (gen_acct). *)
Inductive acct := AcctEveryCall | AcctDispatchedOnly.
Definition acct_all (ac : acct) : bool := match ac with AcctEveryCall => true | AcctDispatchedOnly => false end.
Definition acct_eqb (a b : acct) : bool :=
  match a, b with AcctEveryCall, AcctEveryCall | AcctDispatchedOnly, AcctDispatchedOnly => true | _, _ => false end.
Definition ACCT : acct := AcctEveryCall.
Definition acct_counts (ac : acct) (c : call) : bool :=
  match ac with AcctEveryCall => true | AcctDispatchedOnly => c_allowed c end.

(* run_calls / agent_loop with the accounting as a parameter (at AcctEveryCall they ARE run_calls / agent_loop:
   run_calls_a_every / agent_loop_a_every in the proofs) *)
Fixpoint run_calls_a (ac : acct) (sid : N) (link : option N) (aok : ck -> bool) (calls : list call)
         (count seq : N) : list ev * N * N * bool :=
  match calls with
  | [] => ([], seq, count, false)
  | c :: rest =>
      if MAX_TOOL_CALLS <=? count then ([], seq, count, true)
      else
        let ks := if c_allowed c then tool_kinds (c_tool c) else rejected_kinds in
        let se := if c_allowed c && c_lock c then side_effects sid link aok else [] in
        match run_calls_a ac sid link aok rest (if acct_counts ac c then count + 1 else count) (seq + nlen ks) with
        | (evs, seq', count', ex) => (frames_at sid seq ks ++ se ++ evs, seq', count', ex)
        end
  end.

Fixpoint agent_loop_a (ac : acct) (sid : N) (link : option N) (aok : ck -> bool) (stateless : bool)
         (reqs : list req_out) (count seq : N) (prev followup : bool) : list ev * N * N * bool :=
  if MAX_TOOL_CALLS <=? count then ([], seq, R_MAX_TOOL_CALLS, prev)
  else if followup && negb stateless && negb prev then ([], seq, R_PROVIDER_ERROR, prev)
  else
    match reqs with
    | [] =>
        let ks := fst (stream_kinds (RHttpErr [] [])) in
        (frames_at sid seq ks, seq + nlen ks, R_PROVIDER_ERROR, prev)
    | r :: rest =>
        let ks := fst (stream_kinds r) in
        let evs0 := frames_at sid seq ks in
        let seq1 := seq + nlen ks in
        match r with
        | ROk _ has_id calls =>
            let prev' := has_id || prev in
            match calls with
            | [] => (evs0, seq1, R_COMPLETED, prev')
            | _ :: _ =>
                if negb prev' && negb stateless then (evs0, seq1, R_PROVIDER_ERROR, prev')
                else
                  match run_calls_a ac sid link aok calls count seq1 with
                  | (evs1, seq2, count', ex) =>
                      if ex then (evs0 ++ evs1, seq2, R_MAX_TOOL_CALLS, prev')
                      else
                        match agent_loop_a ac sid link aok stateless rest count' seq2 prev' true with
                        | (evs2, seq3, reason, p) => (evs0 ++ evs1 ++ evs2, seq3, reason, p)
                        end
                  end
            end
        | _ =>
            (evs0, seq1, match snd (stream_kinds r) with Some x => x | None => R_PROVIDER_ERROR end, prev)
        end
    end.

(* the type of the provider loop as run_session uses it *)
Definition loop_t : Type :=
  N -> option N -> (ck -> bool) -> bool -> list req_out -> N -> N -> bool -> bool -> list ev * N * N * bool.

(* ---------- run_session ---------- *)
Inductive ck_res := CkCreatedOk | CkRewoundOk | CkFail.
Definition ck_kind (r : ck_res) : sk :=
  match r with CkCreatedOk => SCkCreated | CkRewoundOk => SCkRewound | CkFail => SCkFailed end.

Inductive input :=
| IPrompt (compile_ok : bool) (reqs : list req_out)   (* parse_action = Prompt *)
| ITool (lock : bool) (t : tool_out)                  (* {"tool":…} envelope *)
| ICheckpoint (r : ck_res).                           (* {"checkpoint":…} envelope *)

Record cfg := {
  g_provider : bool;       (* an OpenResponsesConfig is present *)
  g_stateless : bool }.

(* kernel Session::next_event after the start frame, no hooks registered: output "ack: …", ended *)
Definition runtime_tail (sid seq : N) : list ev := frames_at sid seq [SOutput; SEnded R_COMPLETED].

(* `guard.iter().rev().find_map(SessionEnded{reason})` over the session's buffer *)
Fixpoint last_reason_from (sid : N) (l : list ev) (acc : N) : N :=
  match l with
  | [] => acc
  | ES s _ (SEnded r) :: rest => last_reason_from sid rest (if s =? sid then r else acc)
  | _ :: rest => last_reason_from sid rest acc
  end.
Definition last_reason (sid : N) (l : list ev) : N := last_reason_from sid l R_UNKNOWN.

Definition run_body_with (loop : loop_t) (g : cfg) (sid : N) (link : option N) (aok : ck -> bool) (inp : input) : list ev :=
  match inp with
  | ITool lock t =>
      let ks := tool_kinds t in
      frames_at sid 1 ks ++ (if lock then side_effects sid link aok else [])
      ++ runtime_tail sid (1 + nlen ks)
  | ICheckpoint r => frames_at sid 1 [ck_kind r] ++ runtime_tail sid 2
  | IPrompt cok reqs =>
      if negb (g_provider g) then runtime_tail sid 1
      else
        match link, cok with
        | Some _, false => [ES sid 1 (SEnded R_COMPILE_FAILED)]
        | _, _ =>
            (match link with
             | Some mid => capp aok (CSelection sid mid) ++ capp aok (CCompiled sid)
             | None => []
             end)
            ++ match loop sid link aok (g_stateless g) reqs 0 1 false false with
               | (evs, seq, reason, prev) =>
                   evs
                   ++ (if (reason =? R_COMPLETED) && prev
                       then match link with Some _ => capp aok (CCursor sid) | None => [] end
                       else [])
                   ++ [ES sid seq (SEnded reason)]
               end
        end
  end.

Definition run_body : cfg -> N -> option N -> (ck -> bool) -> input -> list ev := run_body_with agent_loop.

Definition run_session (g : cfg) (sid : N) (link : option N) (aok : ck -> bool) (inp : input) : list ev :=
  let evs := ES sid 0 SStarted :: run_body g sid link aok inp in
  evs ++ match link with
         | Some mid => capp aok (CRunEnded sid mid (last_reason sid evs))
         | None => []
         end.

(* run_session with the budget accounting as a parameter (run_session_a ACCT = run_session: run_session_a_every) *)
Definition run_session_a (ac : acct) (g : cfg) (sid : N) (link : option N) (aok : ck -> bool) (inp : input) : list ev :=
  let evs := ES sid 0 SStarted :: run_body_with (agent_loop_a ac) g sid link aok inp in
  evs ++ match link with
         | Some mid => capp aok (CRunEnded sid mid (last_reason sid evs))
         | None => []
         end.

Fixpoint all2 {A B} (f : A -> B -> bool) (a : list A) (b : list B) : bool :=
  match a, b with
  | [], [] => true
  | x :: a', y :: b' => f x y && all2 f a' b'
  | _, _ => false
  end.

(* ---------- the single exit under FAILING side writes ----------
   Besides the log, the end of a run makes best-effort writes that can fail (disk full, read-only data directory, a
   tool of this or an earlier run that put something else where the target should be):
     SwSnapshot     rip_log::write_snapshot(<data>/snapshots/<session>.json): create_dir_all, File::create, write_all,
                    flush - after the terminal frame, before append_run_ended (`let _ = write_snapshot(..)`);
     SwThreadCache  ContinuityStreamCache::append_best_effort(<data>/continuity_streams/…): the sidecar line and the
                    seek / message indexes of every thread frame, inside the append, after its log write;
     SwArtifacts    <workspace>/.rip/artifacts (context bundle, summaries): a failure is a compile outcome
                    (session_ended context_compile_failed), i.e. the input parameter `compile_ok`;
     SwCheckpoints  <workspace>/.rip/checkpoints (auto checkpoint before a mutating tool): a failure is the frame
                    checkpoint_failed, i.e. the input parameter `t_auto`.
   `f w = true`: that write of this run fails.  The exit GATE = the side writes whose failure the code lets suppress the
   append of continuity_run_ended.  session.rs today: none (`let _ = write_snapshot(..); drop(guard);
   if let Some(link) = continuity_run { let _ = continuities.append_run_ended(..) }`).
   Gen/RunLifecycleGen.v re-reads it from run_session on every run (gen_exit_gate). *)
Inductive side_write := SwSnapshot | SwThreadCache | SwArtifacts | SwCheckpoints.
Definition side_write_eqb (a b : side_write) : bool :=
  match a, b with
  | SwSnapshot, SwSnapshot | SwThreadCache, SwThreadCache | SwArtifacts, SwArtifacts | SwCheckpoints, SwCheckpoints => true
  | _, _ => false
  end.
Definition EXIT_GATE : list side_write := [].
Definition gate_unconditional (gate : list side_write) : bool := match gate with [] => true | _ :: _ => false end.
Definition gate_eqb (a b : list side_write) : bool := all2 side_write_eqb a b.
(* run_ended is attempted iff no side write of the gate failed *)
Definition gate_open (gate : list side_write) (f : side_write -> bool) : bool := negb (existsb f gate).

(* what the failing side writes of a run do BEFORE its exit: they turn into the outcomes the run model already has -
   SwArtifacts: the context bundle cannot be written => the compile of a linked provider run fails (compile_ok = false:
                session_ended context_compile_failed, nothing else);
   SwCheckpoints: the auto checkpoint in front of a mutating tool fails (t_auto 1 => 2: checkpoint_failed, the tool still
                runs), a checkpoint-create envelope fails (checkpoint_failed).
   (SwSnapshot and SwThreadCache are written after the frames: they change nothing a run logs - unless the gate says so.) *)
Definition tool_under (f : side_write -> bool) (t : tool_out) : tool_out :=
  {| t_auto := if f SwCheckpoints && (t_auto t =? 1) then 2 else t_auto t; t_res := t_res t |}.
Definition call_under (f : side_write -> bool) (c : call) : call :=
  {| c_allowed := c_allowed c; c_lock := c_lock c; c_tool := tool_under f (c_tool c) |}.
Definition req_under (f : side_write -> bool) (r : req_out) : req_out :=
  match r with ROk pf has_id calls => ROk pf has_id (map (call_under f) calls) | _ => r end.
Definition inp_under (f : side_write -> bool) (inp : input) : input :=
  match inp with
  | IPrompt cok reqs => IPrompt (cok && negb (f SwArtifacts)) (map (req_under f) reqs)
  | ITool lock t => ITool lock (tool_under f t)
  | ICheckpoint r => ICheckpoint (match r with CkCreatedOk => if f SwCheckpoints then CkFail else CkCreatedOk | _ => r end)
  end.

(* run_session with the gate and the run's failing side writes as parameters (at an empty gate it IS run_session on the
   input the failing side writes leave, for every failure pattern: run_session_x_ungated in the proofs) *)
Definition run_session_x (gate : list side_write) (f : side_write -> bool)
           (g : cfg) (sid : N) (link : option N) (aok : ck -> bool) (inp0 : input) : list ev :=
  let inp := inp_under f inp0 in
  let evs := ES sid 0 SStarted :: run_body g sid link aok inp in
  evs ++ match link with
         | Some mid => if gate_open gate f then capp aok (CRunEnded sid mid (last_reason sid evs)) else []
         | None => []
         end.

(* provider requests a run made: its openresponses_request_started frames *)
Definition is_reqk (k : sk) : bool := match k with SReqStarted => true | _ => false end.
Definition is_req (e : ev) : bool := match e with ES _ _ k => is_reqk k | EC _ => false end.
Definition nreq (l : list ev) : nat := length (filter is_req l).

(* the stubborn model: answers EVERY request with one call of a function tool_choice refuses (fresh response id) *)
Definition refused_call : call :=
  {| c_allowed := false; c_lock := true; c_tool := {| t_auto := 0; t_res := TDone 0 0 |} |}.
Definition refused_answer : req_out := ROk [false; false] true [refused_call].
Definition is_refused_answer (r : req_out) : bool :=
  match r with ROk _ _ [c] => negb (c_allowed c) | _ => false end.

(* thread_post_message: append message (Err => 404, nothing else happens), create the session,
   append run_spawned (Err => 500, no task is spawned), spawn run_session *)
Definition post_message (g : cfg) (aok : ck -> bool) (mid sid : N) (inp : input) : list ev :=
  if aok (CMessage mid) then
    EC (CMessage mid) ::
    (if aok (CRunSpawned sid mid) then EC (CRunSpawned sid mid) :: run_session g sid (Some mid) aok inp
     else [])
  else [].

(* ---------- thread_post_message under a client that hangs up ----------
   The handler has ONE suspension point: `state.sessions.lock().await` (registering the session handle in the router's
   map; a tokio Mutex, it suspends when another request is inside the map's critical section).  hyper/axum DROP the handler
   future of a connection that went away while it is suspended.  Where that suspension point sits decides what a dropped
   request leaves behind:
     PoLockFirst    create session, lock + register, THEN append message, append run_spawned, spawn - no suspension
                    point between the two appends and the spawn (server.rs today, after the fix);
     PoAppendFirst  append message, THEN lock + register, append run_spawned, spawn (before the fix): a request dropped
                    at the lock has logged its message and never announces or starts the run.
   Gen/RunLifecycleGen.v re-reads the order from server.rs on every run (gen_post_order). *)
Inductive post_order := PoLockFirst | PoAppendFirst.
Definition post_order_safe (po : post_order) : bool := match po with PoLockFirst => true | PoAppendFirst => false end.
Definition post_order_eqb (a b : post_order) : bool :=
  match a, b with PoLockFirst, PoLockFirst | PoAppendFirst, PoAppendFirst => true | _, _ => false end.
Definition POST_ORDER : post_order := PoLockFirst.

(* `dropped` = the request future is dropped at the suspension point *)
Definition post_message_hung (po : post_order) (g : cfg) (aok : ck -> bool) (mid sid : N) (inp : input) (dropped : bool) : list ev :=
  if dropped then
    match po with
    | PoLockFirst => []
    | PoAppendFirst => if aok (CMessage mid) then [EC (CMessage mid)] else []
    end
  else post_message g aok mid sid inp.

(* ---------- background jobs (compaction summarizer) ---------- *)
Inductive job_out :=
| JEarlyErr              (* replay failed / thread missing: returns before the closure, no frame *)
| JDone (n : N)          (* n checkpoints, job_ended completed *)
| JFail (n : N).         (* n checkpoints, then an error: job_ended failed (append result ignored) *)

Definition job_run (aok : ck -> bool) (j : N) (o : job_out) : list ev :=
  match o with
  | JEarlyErr => []
  | JDone n => repN (EC (CCheckpoint j)) n ++ capp aok (CJobEnded j 0)
  | JFail n => repN (EC (CCheckpoint j)) n ++ capp aok (CJobEnded j 1)
  end.

(* compaction_auto_spawn_job_v1 (`?` on append_job_spawned) then the spawned task *)
Definition job (aok : ck -> bool) (j : N) (o : job_out) : list ev :=
  if aok (CJobSpawned j) then EC (CJobSpawned j) :: job_run aok j o else [].

(* ---------- activities on one store and their interleavings ---------- *)
(* the provider configuration is per activity (per-message override / per-spawn override) *)
Inductive act :=
| APost (g : cfg) (mid sid : N) (inp : input)   (* POST /threads/{id}/messages *)
| AInput (g : cfg) (sid : N) (inp : input)      (* POST /sessions ; POST /sessions/{id}/input (no link) *)
| AJob (j : N) (o : job_out).                   (* POST /threads/{id}/compaction-auto(-schedule) *)

Definition act_events (aok : ck -> bool) (a : act) : list ev :=
  match a with
  | APost g mid sid inp => post_message g aok mid sid inp
  | AInput g sid inp => run_session g sid None aok inp
  | AJob j o => job aok j o
  end.

(* the activities with the exit gate and every run's failing side writes as parameters: `swf sid w` = side write w of
   the run with session id sid fails (a pattern over the whole store: a damaged directory fails every later run too) *)
Definition post_message_x (gate : list side_write) (f : side_write -> bool) (g : cfg) (aok : ck -> bool) (mid sid : N) (inp : input) : list ev :=
  if aok (CMessage mid) then
    EC (CMessage mid) ::
    (if aok (CRunSpawned sid mid) then EC (CRunSpawned sid mid) :: run_session_x gate f g sid (Some mid) aok inp
     else [])
  else [].

Definition act_events_x (gate : list side_write) (swf : N -> side_write -> bool) (aok : ck -> bool) (a : act) : list ev :=
  match a with
  | APost g mid sid inp => post_message_x gate (swf sid) g aok mid sid inp
  | AInput g sid inp => run_session_x gate (swf sid) g sid None aok inp
  | AJob j o => job aok j o
  end.

(* the activity as the failing side writes leave it (same ids, same configuration) *)
Definition act_under (swf : N -> side_write -> bool) (a : act) : act :=
  match a with
  | APost g mid sid inp => APost g mid sid (inp_under (swf sid) inp)
  | AInput g sid inp => AInput g sid (inp_under (swf sid) inp)
  | AJob j o => AJob j o
  end.

(* l is a merge of a and b (both orders kept) *)
Inductive Merge : list ev -> list ev -> list ev -> Prop :=
| M_nil : Merge [] [] []
| M_l : forall x a b l, Merge a b l -> Merge (x :: a) b (x :: l)
| M_r : forall x a b l, Merge a b l -> Merge a (x :: b) (x :: l).

(* l is an interleaving of the lists ls: every list's own order is kept, nothing else is assumed
   about the schedule *)
Inductive Interleave : list (list ev) -> list ev -> Prop :=
| IL_nil : Interleave [] []
| IL_cons : forall a ls m l, Interleave ls m -> Merge a m l -> Interleave (a :: ls) l.

(* ---------- S6: the one-run-per-session guard of SessionEngine::spawn_session under concurrent inputs ---------- *)
(* runner.rs spawn_session: `if handle.started.swap(true, SeqCst) { return false; }  …  tokio::spawn(run_session(..)); true`.
   n callers (actors) hold clones of one SessionHandle.  The guard kind is a parameter:
     GAtomicRmw     one atomic read-modify-write (swap / compare_exchange / fetch_or): test and set are ONE step;
     GCheckThenSet  `load` … spawn … `store(true)`: the test is one step, spawn-and-set a later one.
   A schedule is the list of actor numbers in the order in which they take their next step. *)
Inductive guard_kind := GAtomicRmw | GCheckThenSet.
Definition guard_atomic (gk : guard_kind) : bool := match gk with GAtomicRmw => true | GCheckThenSet => false end.
Definition guard_kind_eqb (a b : guard_kind) : bool :=
  match a, b with GAtomicRmw, GAtomicRmw | GCheckThenSet, GCheckThenSet => true | _, _ => false end.
(* what the code has today; Gen/RunLifecycleGen.v re-reads it from runner.rs on every run *)
Definition GUARD_KIND : guard_kind := GAtomicRmw.

Inductive pc := PcInit | PcPassed | PcAccepted | PcRefused.

Fixpoint upd {A} (l : list A) (i : nat) (x : A) : list A :=
  match l, i with
  | [], _ => []
  | _ :: r, O => x :: r
  | y :: r, S j => y :: upd r j x
  end.

(* state: the `started` flag and every actor's program counter *)
Definition guard_step (gk : guard_kind) (st : bool * list pc) (a : nat) : bool * list pc :=
  match nth_error (snd st) a with
  | Some PcInit =>
      if fst st then (fst st, upd (snd st) a PcRefused)                 (* flag already set: `return false` *)
      else match gk with
           | GAtomicRmw => (true, upd (snd st) a PcAccepted)            (* swap saw false and set true: spawns *)
           | GCheckThenSet => (false, upd (snd st) a PcPassed)          (* load saw false; nothing written yet *)
           end
  | Some PcPassed => (true, upd (snd st) a PcAccepted)                  (* tokio::spawn(run_session); store(true) *)
  | _ => st                                                             (* returned already / no such actor *)
  end.

Definition run_guard (gk : guard_kind) (n : nat) (sched : list nat) : bool * list pc :=
  fold_left (guard_step gk) sched (false, repeat PcInit n).

(* the inputs whose spawn_session call returned true: each of them is a run_session task on the session *)
Fixpoint accepted_inputs {A} (pcs : list pc) (inps : list A) : list A :=
  match pcs, inps with
  | p :: ps, i :: r => (match p with PcAccepted => [i] | _ => [] end) ++ accepted_inputs ps r
  | _, _ => []
  end.

(* the schedule the harness forces through the hook point session.spawn.guarded: every actor takes its first
   step (up to the point, or to its `return false`), then every actor is released *)
Definition stepped_sched (n : nat) : list nat := seq 0 n ++ seq 0 n.

Definition race_accepted (gk : guard_kind) (n : N) : N :=
  nlen (accepted_inputs (snd (run_guard gk (N.to_nat n) (stepped_sched (N.to_nat n)))) (repeat tt (N.to_nat n))).

(* single exit of run_session (session.rs, after the `match action`): the order of its closing steps;
   0 drain the kernel session unless skip_runtime_loop, 1 lock the frame buffer, 2 reason = LAST session_ended of the
   buffer, 3 write_snapshot, 4 append_run_ended(reason) when linked.  Re-read from the source by the extractor. *)
Definition EXIT_ORDER : list N := [0; 1; 2; 3; 4].

(* ---------- views of the log ---------- *)
Definition sess_stream (sid : N) (l : list ev) : list (N * sk) :=
  flat_map (fun e => match e with ES s q k => if s =? sid then [(q, k)] else [] | EC _ => [] end) l.

Definition ck_run (k : ck) : option N :=
  match k with
  | CRunSpawned r _ | CSelection r _ | CCompiled r | CSideEffects r | CCursor r | CRunEnded r _ _ => Some r
  | _ => None
  end.

(* the run a frame belongs to: session frames by stream id, thread frames by run_session_id *)
Definition ev_run (e : ev) : option N :=
  match e with ES s _ _ => Some s | EC k => ck_run k end.

(* everything the run `sid` wrote: its session frames and the thread frames that name it *)
Definition of_run (sid : N) (e : ev) : bool :=
  match ev_run e with Some r => r =? sid | None => false end.

Definition conts (l : list ev) : list ck :=
  flat_map (fun e => match e with EC k => [k] | ES _ _ _ => [] end) l.

Definition is_spawn_of (mid : N) (k : ck) : bool :=
  match k with CRunSpawned _ m => m =? mid | _ => false end.
Definition is_message_of (mid : N) (k : ck) : bool :=
  match k with CMessage m => m =? mid | _ => false end.
Definition is_end_of (run : N) (k : ck) : bool :=
  match k with CRunEnded r _ _ => r =? run | _ => false end.
Definition is_job_end_of (j : N) (k : ck) : bool :=
  match k with CJobEnded x _ => x =? j | _ => false end.
Definition ckp (p : ck -> bool) (e : ev) : bool := match e with EC k => p k | ES _ _ _ => false end.
Definition count_ck (p : ck -> bool) (l : list ev) : nat := length (filter (ckp p) l).

Fixpoint seqs_from (s : N) (n : nat) : list N :=
  match n with O => [] | S m => s :: seqs_from (s + 1) m end.

Definition is_start_or_end (k : sk) : bool :=
  match k with SStarted | SEnded _ => true | _ => false end.

(* "starts with its start frame at seq 0 and ends with exactly one end frame" *)
Definition SessionShape (s : list (N * sk)) : Prop :=
  exists mid r,
    map snd s = SStarted :: mid ++ [SEnded r]
    /\ forallb (fun k => negb (is_start_or_end k)) mid = true
    /\ map fst s = seqs_from 0 (length s).

(* RunSpawned; [SelectionDecided; Compiled]?; SideEffects*; CursorUpdated?; RunEnded *)
Definition ThreadShape (run mid : N) (cs : list ck) (r : N) : Prop :=
  exists sel n cur,
    cs = CRunSpawned run mid :: sel ++ repeat (CSideEffects run) n ++ cur ++ [CRunEnded run mid r]
    /\ (sel = [] \/ sel = [CSelection run mid; CCompiled run])
    /\ (cur = [] \/ cur = [CCursor run]).

Definition all_ok : ck -> bool := fun _ => true.

(* what failing appends do to the log: a session frame is always written, a thread frame iff its append succeeds *)
Definition keeps (aok : ck -> bool) (e : ev) : bool := match e with ES _ _ _ => true | EC k => aok k end.

(* the activity really started a run (for a post: both appends of thread_post_message succeeded) *)
Definition act_started (aok : ck -> bool) (a : act) : bool :=
  match a with
  | APost _ mid sid _ => aok (CMessage mid) && aok (CRunSpawned sid mid)
  | AInput _ _ _ => true
  | AJob _ _ => false
  end.

Definition act_sids (a : act) : list N :=
  match a with APost _ _ s _ | AInput _ s _ => [s] | AJob _ _ => [] end.
Definition act_mids (a : act) : list N := match a with APost _ m _ _ => [m] | _ => [] end.
Definition act_jobs (a : act) : list N := match a with AJob j _ => [j] | _ => [] end.

(* fresh uuids: session ids, message ids and job ids are pairwise distinct *)
Definition WfActs (acts : list act) : Prop :=
  NoDup (flat_map act_sids acts) /\ NoDup (flat_map act_mids acts) /\ NoDup (flat_map act_jobs acts).

(* ---------- boolean versions (used by the correspondence and by vm_compute witnesses) ---------- *)
Definition sk_code (k : sk) : list N :=
  match k with
  | SStarted => [1] | SOutput => [2] | SEnded r => [3; r]
  | SProvider => [4] | SReqStarted => [5] | SHeaders => [6] | SFirstByte => [7]
  | SToolStarted => [8] | SToolStdout => [9] | SToolStderr => [10] | SToolEnded => [11] | SToolFailed => [12]
  | SCkCreated => [13] | SCkRewound => [14] | SCkFailed => [15]
  | SHttpErr n a => [16; n; a] | SToolStdoutT n a => [17; n; a]
  end.

Definition ck_code (k : ck) : list N :=
  match k with
  | CMessage m => [20; m]
  | CRunSpawned r m => [21; r; m]
  | CSelection r m => [22; r; m]
  | CCompiled r => [23; r]
  | CSideEffects r => [24; r]
  | CCursor r => [25; r]
  | CRunEnded r m x => [26; r; m; x]
  | CCheckpoint j => [27; j]
  | CJobSpawned j => [28; j]
  | CJobEnded j s => [29; j; s]
  end.

Definition enc_ev (e : ev) : list N :=
  match e with
  | ES s q k => 1 :: s :: q :: sk_code k
  | EC k => 2 :: ck_code k
  end.
Definition enc_evs (l : list ev) : list N := nlen l :: flat_map enc_ev l.

(* a correspondence case: the store's configuration, the activities (each with what the harness
   scripted for provider / tools), and for each activity the frames it really wrote (the log
   filtered on that activity's ids, in file order) *)
Record case := {
  k_acts : list act;
  k_expect : list (list N);
  k_races : list (N * N);     (* stepped concurrent inputs: (number of senders, number of accepted inputs) per round *)
  k_faults : list N;          (* fault injection: the kinds of continuity frames (head of ck_code) whose append fails *)
  k_drops : list (list N);    (* posts whose request future was dropped at the handler's suspension point: the frames
                                 each left in the log (message id written 0) *)
  k_swf : list (N * list N) }. (* failing side writes: (session id of the run, codes of the side writes that failed in it) *)

(* AppendOk fails for exactly the frame kinds the harness made fail (rip_kernel::verif::fail) *)
Definition aok_of (faults : list N) (k : ck) : bool :=
  negb (existsb (N.eqb (hd 0 (ck_code k))) faults).

(* the failure pattern the harness produced (fail hook snap.write / a tool that damaged the target directory) *)
Definition sw_code (w : side_write) : N :=
  match w with SwSnapshot => 1 | SwThreadCache => 2 | SwArtifacts => 3 | SwCheckpoints => 4 end.
Definition swf_of (l : list (N * list N)) (sid : N) (w : side_write) : bool :=
  existsb (fun p : N * list N => (fst p =? sid) && existsb (N.eqb (sw_code w)) (snd p)) l.

(* every activity is evaluated with the gate the model has and the failure pattern of the case *)
Definition case_events (c : case) (a : act) : list ev :=
  act_events_x EXIT_GATE (swf_of (k_swf c)) (aok_of (k_faults c)) a.

Definition check_case (c : case) : bool :=
  all2 (fun a e => lN_eqb (enc_evs (case_events c a)) e) (k_acts c) (k_expect c)
  && forallb (fun r : N * N => race_accepted GUARD_KIND (fst r) =? snd r) (k_races c)
  && forallb (fun e : list N =>
                lN_eqb (enc_evs (post_message_hung POST_ORDER {| g_provider := false; g_stateless := false |} all_ok 0 0 (IPrompt true []) true)) e)
             (k_drops c).

Definition model_obs (c : case) : list N :=
  flat_map (fun a => enc_evs (case_events c a)) (k_acts c).
