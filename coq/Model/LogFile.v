(* The truth log as a FILE across process lifetimes (C02, builder log02d): what opening, reading, a torn
   write and the next append do to the BYTES of events.jsonl, whatever state a crash or a partial write
   left them in (whole lines, an unterminated tail of any length, garbage, nothing at all).
     FOpen    EventLog::new (crates/rip-log/src/lib.rs): `OpenOptions::new().create(true).append(true)
              .open(path)` and nothing else - so also ContinuityStore::new, SessionEngine::new, the CLI's
              local mode (SessionEngine::new_default) and build_app, which reach the file through it
     FRead    replay / replay_validated / replay_stream / replay_session / last_seq (File::open, read only)
              and every read-only capability above them
     FAppend  EventLog::append: frame + LF in ONE write on an O_APPEND descriptor: the kernel puts it at
              the end of the file AS IT IS - after a torn tail the frame is glued onto that tail
     FTorn    bytes that reached the file without any guarantee of a terminator: the part of a write(2)
              that was done when the process died / the disk filled up, or anything another writer left
   `open_policy` is what opening does: OKeep is the code (the identity); OCutTail w is the "recovery"
   shape of seed C02-10 (drop the unterminated tail, looking at the last w bytes only).
   No proofs here (Proofs/LogFileProofs.v). *)
From RipV Require Import Base.Prelude Model.Frames Model.Log Model.LogBytes.

Inductive fop :=
| FOpen
| FRead
| FAppend (line : bytes)
| FTorn (d : bytes).

Inductive open_policy :=
| OKeep
| OCutTail (window : N).

(* index of the last LF of l *)
Fixpoint last_lf (l : bytes) : option nat :=
  match l with
  | [] => None
  | x :: r => match last_lf r with
              | Some i => Some (S i)
              | None => if x =? 10 then Some O else None
              end
  end.

(* seed C02-10, `drop_unterminated_tail`, line by line:
     len = metadata.len(); start = len.saturating_sub(WINDOW); tail = bytes from start to the end;
     if tail.is_empty() || tail.last() == Some(b'\n') { return }          -- whole lines: nothing happens
     keep = tail.rposition(b'\n').map(|nl| start + nl + 1).unwrap_or(0);  -- no LF in the window: 0
     file.set_len(keep) *)
Definition cut_tail (w : N) (b : bytes) : bytes :=
  let len := length b in
  let start := (len - N.to_nat w)%nat in
  let tail := skipn start b in
  match rev tail with
  | [] => b
  | x :: _ =>
    if x =? 10 then b
    else match last_lf tail with
         | Some nl => firstn (start + nl + 1) b
         | None => []
         end
  end.

Definition open_file (p : open_policy) (b : bytes) : bytes :=
  match p with
  | OKeep => b
  | OCutTail w => cut_tail w b
  end.

Definition fstep (p : open_policy) (b : bytes) (o : fop) : bytes :=
  match o with
  | FOpen => open_file p b
  | FRead => b
  | FAppend line => b ++ line
  | FTorn d => b ++ d
  end.

(* the file after a history of operations *)
Definition ffinal (p : open_policy) (b : bytes) (ops : list fop) : bytes := fold_left (fstep p) ops b.

(* the file after every operation of the history, oldest first *)
Fixpoint ftrace (p : open_policy) (b : bytes) (ops : list fop) : list bytes :=
  match ops with
  | [] => []
  | o :: r => fstep p b o :: ftrace p (fstep p b o) r
  end.

(* what EventLog::append hands to write(2) *)
Definition frame_line (enc : frame -> bytes) (f : frame) : bytes := enc f ++ [10].

(* ---------- correspondence cases: operations by size (the harness reports lengths, not contents) ----------
   LAppend n      a frame line of n bytes including its LF
   LTorn n k      n bytes without a final LF; k = 0: no LF inside; k > 0: byte number k (1-based) is an LF
                  (a torn region that itself contains a line end: garbage, two frames of which the second is cut)
   observation after every operation: bytes in the file, bytes after the last LF *)
Inductive lfop :=
| LOpen
| LRead
| LAppend (n : N)
| LTorn (n k : N).

Definition fill (x : N) (n : N) : bytes := repeat x (N.to_nat n).

Definition torn_bytes (n k : N) : bytes :=
  if k =? 0 then fill 66 n else fill 66 (k - 1) ++ [10] ++ fill 66 (n - k).

Definition fop_of (o : lfop) : fop :=
  match o with
  | LOpen => FOpen
  | LRead => FRead
  | LAppend n => FAppend (fill 65 (n - 1) ++ [10])
  | LTorn n k => FTorn (torn_bytes n k)
  end.

(* bytes after the last LF *)
Definition unterminated_len (b : bytes) : N :=
  fold_left (fun acc x => if x =? 10 then 0 else acc + 1) b 0.

Record case_logfile := { lf_ops : list lfop; lf_expect : list N }.

Definition model_obs_logfile (c : case_logfile) : list N :=
  flat_map (fun b => [blen b; unterminated_len b]) (ftrace OKeep [] (map fop_of (lf_ops c))).

(* ---------- T1: the file-system effects on the log path that the open and read paths of rip-log contain ----------
   tools/gen/log_open.py lists, in source order, every file-system effect in the call closure (inside
   crates/rip-log/src/lib.rs) of EventLog::new (`gen_open_effects`) and of the readers replay / replay_validated /
   replay_stream / replay_session / last_seq (`gen_read_effects`).  An effect the extractor does not know is EOther. *)
Inductive oeffect :=
| EMkdirParents       (* fs::create_dir_all(parent) *)
| EOpenCreateAppend   (* OpenOptions::new().create(true).append(true).open(..): creates an EMPTY file when there is none, never cuts one *)
| EOpenRead           (* File::open / OpenOptions with read(true) only *)
| EOpenWrite          (* OpenOptions with write / truncate / create_new *)
| ECreateFile         (* File::create: truncates *)
| ESetLen             (* set_len *)
| EWrite              (* write / write_all / write! / flush on something *)
| ERemoveOrRename     (* fs::remove_file / rename / copy / fs::write *)
| EOther.

(* what an effect does to the bytes of an existing log; None: not the identity / unknown *)
Definition effect_bytes (e : oeffect) (b : bytes) : option bytes :=
  match e with
  | EMkdirParents | EOpenCreateAppend | EOpenRead => Some b
  | _ => None
  end.

Fixpoint effects_bytes (es : list oeffect) (b : bytes) : option bytes :=
  match es with
  | [] => Some b
  | e :: r => match effect_bytes e b with Some b' => effects_bytes r b' | None => None end
  end.

Definition effect_harmless (e : oeffect) : bool :=
  match e with EMkdirParents | EOpenCreateAppend | EOpenRead => true | _ => false end.
Definition is_open_create_append (e : oeffect) : bool :=
  match e with EOpenCreateAppend => true | _ => false end.

(* the obligations on the generated lists *)
Definition open_effects_ok (es : list oeffect) : bool := forallb effect_harmless es && existsb is_open_create_append es.
Definition read_effects_ok (es : list oeffect) : bool :=
  forallb (fun e => match e with EOpenRead => true | _ => false end) es && negb (Nat.eqb (length es) 0).
