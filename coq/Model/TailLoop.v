(* C04 — the tail-doubling driver shared by the five bounded backward scans of continuities.rs
   (compaction_status_v1, provider_cursor_status_v1, provider_cursor_rotate_v1,
    context_selection_status_v1, load_context_compile_input_recent_messages_v1).

       let mut tail_bytes = INITIAL;
       while tail_bytes <= MAX && !done(acc) {
           match scan(MAX_EVENTS, tail_bytes) {
               Ok(Some(tail)) => { scanned = true; [acc.clear();] acc = examine(acc, tail.events);
                                   if tail.complete { complete = true; break; } }
               Ok(None) | Err(_) => break,
           }
           [if tail_bytes >= MAX { break; }]                    <- l_cap_break
           tail_bytes = (tail_bytes * 2).min(MAX);
       }

   The record [cfg] is what tools/gen/tail_loops.py reads from the source for every loop
   (Gen/TailLoops.v).  No proofs here (Proofs/TailLoopProofs.v). *)
From RipV Require Import Base.Prelude.

Record cfg := {
  l_initial : N;             (* INITIAL_TAIL_BYTES *)
  l_max_bytes : N;           (* MAX_TAIL_BYTES *)
  l_max_events : N;          (* MAX_TAIL_EVENTS *)
  l_cap_break : bool;        (* `if tail_bytes >= MAX_TAIL_BYTES { break; }` precedes the doubling *)
  l_clears : bool;           (* every accumulator that is pushed to inside the loop and lives outside it
                                is cleared at the start of each scan iteration *)
  l_incomplete_fallback : bool (* the truth replay after the loop also runs when no scan was exhaustive *)
}.

(* what one bounded backward scan can report *)
Inductive sres (E : Type) :=
| SAbsent                                  (* Ok(None): sidecar file does not exist *)
| SErr                                     (* Err(_): unparsable / foreign / non-contiguous line met *)
| STail (evs : list E) (complete : bool).  (* Ok(Some(TailScan{events, complete})), oldest first *)
Arguments SAbsent {E}.
Arguments SErr {E}.
Arguments STail {E} _ _.

Record lstate (A : Type) := {
  s_tb : N;                 (* tail_bytes *)
  s_acc : A;                (* the loop's accumulator(s) *)
  s_scanned : bool;         (* some scan returned Ok(Some(_)) *)
  s_complete : bool         (* the last scan that returned reported complete = true *)
}.
Arguments s_tb {A} _.
Arguments s_acc {A} _.
Arguments s_scanned {A} _.
Arguments s_complete {A} _.

Section Driver.
  Context {E A : Type}.
  Variable c : cfg.
  Variable scan : N -> N -> sres E.        (* max_events -> max_bytes -> result *)
  Variable acc0 : A.                       (* the cleared accumulator *)
  Variable examine : A -> list E -> A.     (* one pass over a tail (given oldest first) *)
  Variable done : A -> bool.               (* the loop has everything it looks for *)

  Definition l_init : lstate A :=
    {| s_tb := l_initial c; s_acc := acc0; s_scanned := false; s_complete := false |}.

  (* inl = go round again, inr = the loop is left in this state *)
  Definition loop_step (st : lstate A) : lstate A + lstate A :=
    if (l_max_bytes c <? s_tb st) || done (s_acc st) then inr st
    else
      match scan (l_max_events c) (s_tb st) with
      | SAbsent => inr st
      | SErr => inr st
      | STail evs complete =>
        let acc' := examine (if l_clears c then acc0 else s_acc st) evs in
        let st' := {| s_tb := s_tb st; s_acc := acc'; s_scanned := true; s_complete := complete |} in
        if complete then inr st'
        else if l_cap_break c && (l_max_bytes c <=? s_tb st) then inr st'
        else inl {| s_tb := N.min (s_tb st * 2) (l_max_bytes c); s_acc := acc';
                    s_scanned := true; s_complete := false |}
      end.

  Fixpoint iter (fuel : nat) (st : lstate A) : option (lstate A) :=
    match fuel with
    | O => None
    | S f => match loop_step st with
             | inr fin => Some fin
             | inl st' => iter f st'
             end
    end.

  (* number of rounds that always suffice when the cap break is present *)
  Definition rounds_bound (tb : N) : nat :=
    S (N.to_nat (N.log2_up (l_max_bytes c) - N.log2 tb)).

  (* the loop as the callers use it: enough fuel for the bound; None never happens when
     l_cap_break holds (Proofs/TailLoopProofs.v: run_loop_some) *)
  Definition run_loop : option (lstate A) := iter (rounds_bound (l_initial c)) l_init.
End Driver.

(* generated-obligation predicate: what Gen/TailLoops.v must satisfy *)
Definition loop_wf (c : cfg) : bool :=
  (0 <? l_initial c) && (0 <? l_max_events c) && (l_initial c <=? l_max_bytes c)
  && l_cap_break c && l_clears c && l_incomplete_fallback c.
