(* C03 — frames of EVERY size.
   (1) Weights of a written line (UTF-8 byte length, code-point sum) computed on a RUN-LENGTH FOLDED form of the
       document: the harness ships a frame of several MiB as its JSON tree with every long string folded into
       (unit, repetitions) pairs — an exact encoding; `unfold` gives the document back — and the model computes the
       byte length of `Json.print (unfold doc)` as `ssum utf8_len doc` without ever building the text
       (Proofs/WireSizedProofs.v: ssum_unfold, for every weight and every document).
   (2) The GATE of `EventLog::append`: the statements that can make it return before the write, as read from the
       source on every run (tools/gen/sinks.py -> gen_append_gate).  The sinks model of Model/Wire.v takes the fate of
       a log write as an input (`ok`); here the fate is what the disk says AND what the gate says about THIS frame.
       Today's gate holds only the serialiser's `?` (wf_append_gate): nothing about a frame makes the log refuse it,
       so the fate of a log write is the disk's alone and every theorem about run_faulty applies unchanged.
       A size limit in the gate (the seeded change C03-9) is GMaxLine.
   No proofs in this file. *)
From RipV Require Import Base.Prelude Base.Json Model.Wire.

(* ---------- weights of a text ---------- *)
Definition utf8_len (c : N) : N := if c <? 128 then 1 else if c <? 2048 then 2 else if c <? 65536 then 3 else 4.
Definition cp_id (c : N) : N := c.

Fixpoint wsum (w : N -> N) (s : str) : N :=
  match s with [] => 0 | c :: r => w c + wsum w r end.

(* `String::len()` of a Rust string given as code points *)
Definition bytes : str -> N := wsum utf8_len.

(* ---------- run-length folded strings and documents ---------- *)
Definition rle := list (str * N).

Fixpoint rep (n : nat) (u : str) : str :=
  match n with O => [] | S k => u ++ rep k u end.

Fixpoint expand (r : rle) : str :=
  match r with [] => [] | (u, n) :: t => rep (N.to_nat n) u ++ expand t end.

Inductive sjson :=
| SNull
| SBool (b : bool)
| SNum (tok : str)
| SStr (r : rle)
| SArr (l : list sjson)
| SObj (kvs : list (str * sjson)).

Fixpoint unfold (j : sjson) : json :=
  match j with
  | SNull => JNull
  | SBool b => JBool b
  | SNum t => JNum t
  | SStr r => JStr (expand r)
  | SArr l => JArr (map unfold l)
  | SObj kvs => JObj (map (fun kv => (fst kv, unfold (snd kv))) kvs)
  end.

(* weight of the ESCAPED form of a folded string: repetitions * weight (escaped unit) *)
Definition esc_w (w : N -> N) (u : str) : N := wsum w (flat_map esc_char u).

Fixpoint rle_w (w : N -> N) (r : rle) : N :=
  match r with [] => 0 | (u, n) :: t => n * esc_w w u + rle_w w t end.

(* the separators between n items *)
Definition seps (w : N -> N) (n : nat) : N := w cCOMMA * N.of_nat (pred n).

(* weight of `Json.print (unfold j)`, computed on the folded form *)
Fixpoint ssum (w : N -> N) (j : sjson) : N :=
  match j with
  | SNull => wsum w s_null
  | SBool true => wsum w s_true
  | SBool false => wsum w s_false
  | SNum t => wsum w t
  | SStr r => w cQUOTE + (rle_w w r + w cQUOTE)
  | SArr l => w cLBRK + (sumN (map (ssum w) l) + seps w (length l) + w cRBRK)
  | SObj kvs =>
    w cLBRC + (sumN (map (fun kv => wsum w (print_str (fst kv)) + (w cCOLON + ssum w (snd kv))) kvs)
               + seps w (length kvs) + w cRBRC)
  end.

(* ---------- the gate of an append-to-disk function: what can make it return before the write ---------- *)
Inductive gate_stmt :=
| GSerialize          (* `serde_json::to_string(event) .. ?` / `let Ok(line) = to_string(event) else { return }`: the serialiser's own
                         error — an Event has string keys and finite numbers, it cannot occur *)
| GIo                 (* the file cannot be opened / its metadata read (sidecar append only) *)
| GKind               (* not a frame of this store (sidecar append: not a continuity frame) *)
| GMaxLine (n : N)    (* `if line.len() > n { return Err(..) }`: a limit on the written length of a frame *)
| GOther.             (* any other `return` / `?` in front of the write *)

Definition append_gate := list gate_stmt.

(* does the gate let a frame through whose line is `len` bytes long?  (GOther: unknown; the obligation fails anyway) *)
Definition gate_accepts (g : append_gate) (len : N) : bool :=
  forallb (fun st => match st with GMaxLine n => len <=? n | _ => true end) g.

(* EventLog::append: nothing but the serialiser's `?` in front of the write *)
Definition wf_append_gate (g : append_gate) : bool :=
  forallb (fun st => match st with GSerialize => true | _ => false end) g.
(* the sidecar append (best effort): I/O failures and "not my stream" as well — nothing that looks at the frame's content *)
Definition wf_side_gate (g : append_gate) : bool :=
  forallb (fun st => match st with GSerialize | GIo | GKind => true | _ => false end) g.

(* the fate of the log write of frame e: the disk's answer and the gate's *)
Definition fate (g : append_gate) (s : schema) (e : event) (disk_ok : bool) : bool :=
  disk_ok && gate_accepts g (bytes (write_line s e)).

(* a history of emits (frame, does the disk take the write) at an emit site with order eo, behind gate g *)
Definition run_gated (g : append_gate) (eo : emit_order) (s : schema) (steps : list (event * bool)) : sinks :=
  run_faulty eo s (map (fun x => (fst x, fate g s (fst x) (snd x))) steps).

Definition healthy (es : list event) : list (event * bool) := map (fun e => (e, true)) es.

(* ---------- correspondence cases (harness/src/bin/c03/sized.rs) ----------
   One case = one stream of a run of the real engine / store: its frames in emit order; per frame the folded
   document of the line the real writer produced (serde_json::to_string), the byte length and code-point sum of that
   line, and in which views the frame was found afterwards: live subscriber / snapshot (sidecar for a continuity) /
   events.jsonl read by a fresh reader. *)
Record sized_frame := { zf_doc : sjson; zf_bytes : N; zf_cps : N; zf_live : bool; zf_store : bool; zf_log : bool }.
Record sized_case := { zc_cont : bool;      (* a continuity append path (else: session / task emitter) *)
                       zc_errors : N;       (* appends that returned an error *)
                       zc_frames : list sized_frame }.

(* which views get a frame at an emit site: emit_ops with the frame abstracted away (live, store, log) *)
Fixpoint ops_views (checked ok : bool) (ops : list sink_op) (v : bool * bool * bool) : bool * bool * bool :=
  match ops with
  | [] => v
  | SLog :: r => if ok then ops_views checked ok r (fst (fst v), snd (fst v), true)
                 else if checked then v
                 else ops_views checked ok r v
  | SStore :: r => ops_views checked ok r (fst (fst v), true, snd v)
  | SSend :: r => ops_views checked ok r (true, snd (fst v), snd v)
  end.
Definition site_views (eo : emit_order) (ok : bool) : bool * bool * bool :=
  ops_views (eo_log_checked eo) ok (eo_ops eo) (false, false, false).

Definition frame_check (g : append_gate) (eo : emit_order) (f : sized_frame) : bool :=
  let len := ssum utf8_len (zf_doc f) in
  let v := site_views eo (gate_accepts g len) in
  (len =? zf_bytes f) && (ssum cp_id (zf_doc f) =? zf_cps f)
  && Bool.eqb (fst (fst v)) (zf_live f) && Bool.eqb (snd (fst v)) (zf_store f) && Bool.eqb (snd v) (zf_log f).

Definition check_sized_with (g : append_gate) (eo_session eo_continuity : emit_order) (c : sized_case) : bool :=
  forallb (frame_check g (if zc_cont c then eo_continuity else eo_session)) (zc_frames c)
  && ((zc_errors c =? 0) || negb (wf_append_gate g)).

Definition b2n (b : bool) : N := if b then 1 else 0.
Definition sized_obs_with (g : append_gate) (eo_session eo_continuity : emit_order) (c : sized_case) : list N :=
  flat_map (fun f =>
              let len := ssum utf8_len (zf_doc f) in
              let v := site_views (if zc_cont c then eo_continuity else eo_session) (gate_accepts g len) in
              [len; ssum cp_id (zf_doc f); b2n (fst (fst v)); b2n (snd (fst v)); b2n (snd v)]) (zc_frames c).

(* the order of the first emit site of a kind among the regenerated sites *)
Definition order_of_sites (cont : bool) (dflt : emit_order) (l : list sink_site) : emit_order :=
  match filter (fun x => Bool.eqb (ss_cont x) cont) l with x :: _ => ss_order x | [] => dflt end.
