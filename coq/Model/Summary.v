(* C20 — executable model of rip-tui's summary.rs: `event_type` and `event_summary` over all 38 frame
   kinds, `truncate` (cut after max_len characters, never inside one) and the `{:?}` rendering of a
   string.  Strings are lists of code points; numbers are rendered in decimal.  No proofs here
   (Proofs/SummaryProofs.v). *)
From RipV Require Import Base.Prelude.

Definition str := list N.

(* ---------- numbers ---------- *)
Fixpoint dec_aux (fuel : nat) (n : N) : str :=
  match fuel with
  | O => []
  | S f => if n <? 10 then [48 + n] else dec_aux f (n / 10) ++ [48 + n mod 10]
  end.
(* 20 digits cover every u64 (and usize) value *)
Definition dec (n : N) : str := dec_aux 20 n.
Definition dec_signed (neg : bool) (n : N) : str := if neg then 45 :: dec n else dec n.

Definition hexdigit (d : N) : N := if d <? 10 then 48 + d else 87 + d.
Fixpoint hex_aux (fuel : nat) (n : N) : str :=
  match fuel with
  | O => []
  | S f => if n <? 16 then [hexdigit n] else hex_aux f (n / 16) ++ [hexdigit (n mod 16)]
  end.
Definition hex (n : N) : str := hex_aux 6 n.     (* code points are below 16^6 *)

(* ---------- summary.rs: truncate ---------- *)
Definition ELLIPSIS : N := 8230.                 (* U+2026 *)
Definition trunc (n : nat) (s : str) : str :=
  if Nat.leb (length s) n then s else firstn n s ++ [ELLIPSIS].

(* ---------- `{:?}` of a &str: quotes + per-character escape ----------
   ASCII is modelled completely; for a code point >= 128 the standard library decides by its Unicode
   tables (Grapheme_Extend / not printable => \u{..}): the harness passes the code points of the case
   that std escapes as the table `unp` (read off `char::escape_debug` of the running std). *)
Definition esc_u (c : N) : str := [92; 117; 123] ++ hex c ++ [125].
Definition esc (unp : list N) (c : N) : str :=
  if c =? 34 then [92; 34]
  else if c =? 92 then [92; 92]
  else if c =? 10 then [92; 110]
  else if c =? 13 then [92; 114]
  else if c =? 9 then [92; 116]
  else if c =? 0 then [92; 48]
  else if (c <? 32) || (c =? 127) then esc_u c
  else if c <? 127 then [c]
  else if existsb (N.eqb c) unp then esc_u c else [c].
Definition dbg (unp : list N) (s : str) : str := 34 :: concat (map (esc unp) s) ++ [34].

(* ---------- frame kinds as far as summary.rs inspects them ---------- *)
Inductive skind :=
| SSessionStarted (input : str)
| SOutputTextDelta (delta : str)
| SSessionEnded (reason : str)
| SContinuityCreated (workspace : str) (title : option str)
| SContinuityMessageAppended (content : str)
| SContinuityRunSpawned (run : str)
| SContinuityContextSelectionDecided (run strategy : str) (ckpt_to_seq : option N) (resets : N)
| SContinuityContextCompiled (run bundle strategy : str)
  (* cursor: None = no cursor; Some p = a cursor whose "previous_response_id" string is p ("" when it
     has none or it is not a string) *)
| SContinuityProviderCursorUpdated (provider action : str) (cursor : option str)
| SContinuityCompactionCheckpointCreated (ckpt : str) (to_seq : N) (summary rule : str)
| SContinuityCompactionAutoScheduleDecided (policy decision : str) (job : option str)
| SContinuityJobSpawned (jkind jid : str)
| SContinuityJobEnded (jkind jid status : str)
| SContinuityRunEnded (run reason : str)
| SContinuityToolSideEffects (run tool : str) (paths : option N)
| SContinuityBranched (parent : str) (pseq : N)
| SContinuityHandoffCreated (from : str) (fseq : N)
| SToolStarted (name : str)
| SToolStdout (chunk : str)
| SToolStderr (chunk : str)
| SToolEnded (exit_neg : bool) (exit_abs : N)
| SToolFailed (error : str)
  (* status: 0 event, 1 done, 2 invalid_json *)
| SProviderEvent (status : N) (event_name : option str) (nerrors nresp_errors : N)
| SOpenResponsesRequest (idx : N) (model : option str) (body total : N) (truncated : bool)
| SOpenResponsesRequestStarted (idx : N) (model : option str)
| SOpenResponsesResponseHeaders (idx status : N) (request_id : option str)
| SOpenResponsesResponseFirstByte (idx : N)
| SCheckpointCreated (label : str)
| SCheckpointRewound (label : str)
| SCheckpointFailed (error : str)
| SToolTaskSpawned (tool_name : str)
  (* 0 queued 1 running 2 exited 3 cancelled 4 failed *)
| SToolTaskStatus (status : N)
| SToolTaskCancelRequested (reason : str)
| SToolTaskCancelled (reason : str)
| SToolTaskOutputDelta (chunk : str)
| SToolTaskStdinWritten (chunk : str)
| SToolTaskResized (rows cols : N)
| SToolTaskSignalled (signal : str).

(* index of the constructor = index into the name table *)
Definition kind_tag (k : skind) : nat :=
  match k with
  | SSessionStarted _ => 0 | SOutputTextDelta _ => 1 | SSessionEnded _ => 2
  | SContinuityCreated _ _ => 3 | SContinuityMessageAppended _ => 4 | SContinuityRunSpawned _ => 5
  | SContinuityContextSelectionDecided _ _ _ _ => 6 | SContinuityContextCompiled _ _ _ => 7
  | SContinuityProviderCursorUpdated _ _ _ => 8 | SContinuityCompactionCheckpointCreated _ _ _ _ => 9
  | SContinuityCompactionAutoScheduleDecided _ _ _ => 10 | SContinuityJobSpawned _ _ => 11
  | SContinuityJobEnded _ _ _ => 12 | SContinuityRunEnded _ _ => 13 | SContinuityToolSideEffects _ _ _ => 14
  | SContinuityBranched _ _ => 15 | SContinuityHandoffCreated _ _ => 16 | SToolStarted _ => 17
  | SToolStdout _ => 18 | SToolStderr _ => 19 | SToolEnded _ _ => 20 | SToolFailed _ => 21
  | SProviderEvent _ _ _ _ => 22 | SOpenResponsesRequest _ _ _ _ _ => 23
  | SOpenResponsesRequestStarted _ _ => 24 | SOpenResponsesResponseHeaders _ _ _ => 25
  | SOpenResponsesResponseFirstByte _ => 26 | SCheckpointCreated _ => 27 | SCheckpointRewound _ => 28
  | SCheckpointFailed _ => 29 | SToolTaskSpawned _ => 30 | SToolTaskStatus _ => 31
  | SToolTaskCancelRequested _ => 32 | SToolTaskCancelled _ => 33 | SToolTaskOutputDelta _ => 34
  | SToolTaskStdinWritten _ => 35 | SToolTaskResized _ _ => 36 | SToolTaskSignalled _ => 37
  end%nat.

(* ASCII literals *)
Definition lit (s : list N) : str := s.
Definition L_run := lit [114;117;110;61].                              (* "run=" *)
Definition L_none := lit [110;111;110;101].                            (* "none" *)
Definition L_unset := lit [60;117;110;115;101;116;62].                 (* "<unset>" *)

(* event_type: the 38 names in constructor order *)
Definition type_names : list str :=
  [ [115;101;115;115;105;111;110;95;115;116;97;114;116;101;100];
    [111;117;116;112;117;116;95;116;101;120;116;95;100;101;108;116;97];
    [115;101;115;115;105;111;110;95;101;110;100;101;100];
    [99;111;110;116;105;110;117;105;116;121;95;99;114;101;97;116;101;100];
    [99;111;110;116;105;110;117;105;116;121;95;109;101;115;115;97;103;101;95;97;112;112;101;110;100;101;100];
    [99;111;110;116;105;110;117;105;116;121;95;114;117;110;95;115;112;97;119;110;101;100];
    [99;111;110;116;105;110;117;105;116;121;95;99;111;110;116;101;120;116;95;115;101;108;101;99;116;105;111;110;95;100;101;99;105;100;101;100];
    [99;111;110;116;105;110;117;105;116;121;95;99;111;110;116;101;120;116;95;99;111;109;112;105;108;101;100];
    [99;111;110;116;105;110;117;105;116;121;95;112;114;111;118;105;100;101;114;95;99;117;114;115;111;114;95;117;112;100;97;116;101;100];
    [99;111;110;116;105;110;117;105;116;121;95;99;111;109;112;97;99;116;105;111;110;95;99;104;101;99;107;112;111;105;110;116;95;99;114;101;97;116;101;100];
    [99;111;110;116;105;110;117;105;116;121;95;99;111;109;112;97;99;116;105;111;110;95;97;117;116;111;95;115;99;104;101;100;117;108;101;95;100;101;99;105;100;101;100];
    [99;111;110;116;105;110;117;105;116;121;95;106;111;98;95;115;112;97;119;110;101;100];
    [99;111;110;116;105;110;117;105;116;121;95;106;111;98;95;101;110;100;101;100];
    [99;111;110;116;105;110;117;105;116;121;95;114;117;110;95;101;110;100;101;100];
    [99;111;110;116;105;110;117;105;116;121;95;116;111;111;108;95;115;105;100;101;95;101;102;102;101;99;116;115];
    [99;111;110;116;105;110;117;105;116;121;95;98;114;97;110;99;104;101;100];
    [99;111;110;116;105;110;117;105;116;121;95;104;97;110;100;111;102;102;95;99;114;101;97;116;101;100];
    [116;111;111;108;95;115;116;97;114;116;101;100];
    [116;111;111;108;95;115;116;100;111;117;116];
    [116;111;111;108;95;115;116;100;101;114;114];
    [116;111;111;108;95;101;110;100;101;100];
    [116;111;111;108;95;102;97;105;108;101;100];
    [112;114;111;118;105;100;101;114;95;101;118;101;110;116];
    [111;112;101;110;114;101;115;112;111;110;115;101;115;95;114;101;113;117;101;115;116];
    [111;112;101;110;114;101;115;112;111;110;115;101;115;95;114;101;113;117;101;115;116;95;115;116;97;114;116;101;100];
    [111;112;101;110;114;101;115;112;111;110;115;101;115;95;114;101;115;112;111;110;115;101;95;104;101;97;100;101;114;115];
    [111;112;101;110;114;101;115;112;111;110;115;101;115;95;114;101;115;112;111;110;115;101;95;102;105;114;115;116;95;98;121;116;101];
    [99;104;101;99;107;112;111;105;110;116;95;99;114;101;97;116;101;100];
    [99;104;101;99;107;112;111;105;110;116;95;114;101;119;111;117;110;100];
    [99;104;101;99;107;112;111;105;110;116;95;102;97;105;108;101;100];
    [116;111;111;108;95;116;97;115;107;95;115;112;97;119;110;101;100];
    [116;111;111;108;95;116;97;115;107;95;115;116;97;116;117;115];
    [116;111;111;108;95;116;97;115;107;95;99;97;110;99;101;108;95;114;101;113;117;101;115;116;101;100];
    [116;111;111;108;95;116;97;115;107;95;99;97;110;99;101;108;108;101;100];
    [116;111;111;108;95;116;97;115;107;95;111;117;116;112;117;116;95;100;101;108;116;97];
    [116;111;111;108;95;116;97;115;107;95;115;116;100;105;110;95;119;114;105;116;116;101;110];
    [116;111;111;108;95;116;97;115;107;95;114;101;115;105;122;101;100];
    [116;111;111;108;95;116;97;115;107;95;115;105;103;110;97;108;108;101;100] ].

Definition event_type (k : skind) : str := nth (kind_tag k) type_names [].

Definition task_status_name (s : N) : str :=
  if s =? 0 then [113;117;101;117;101;100]                    (* queued *)
  else if s =? 1 then [114;117;110;110;105;110;103]           (* running *)
  else if s =? 2 then [101;120;105;116;101;100]               (* exited *)
  else if s =? 3 then [99;97;110;99;101;108;108;101;100]      (* cancelled *)
  else [102;97;105;108;101;100].                              (* failed *)

Definition is_nil {A} (l : list A) : bool := match l with [] => true | _ => false end.
Definition or_unset (m : option str) : str := match m with Some s => s | None => L_unset end.

(* event_summary (summary.rs:52-312), one branch per kind *)
Definition event_summary (unp : list N) (k : skind) : str :=
  let q := fun s => dbg unp (trunc 64 s) in
  match k with
  | SSessionStarted s | SOutputTextDelta s | SSessionEnded s | SContinuityMessageAppended s
  | SToolStdout s | SToolStderr s | SToolFailed s
  | SCheckpointCreated s | SCheckpointRewound s | SCheckpointFailed s
  | SToolTaskCancelRequested s | SToolTaskCancelled s | SToolTaskOutputDelta s | SToolTaskStdinWritten s => q s
  | SContinuityCreated ws title =>
    match title with
    | Some t => if is_nil t then q ws else q t
    | None => q ws
    end
  | SContinuityRunSpawned run => L_run ++ trunc 16 run
  | SContinuityContextSelectionDecided run strat ckpt resets =>
    L_run ++ trunc 16 run ++ [32; 40] ++ trunc 32 strat
    ++ [41;32;99;107;112;116;95;116;111;95;115;101;113;61]                 (* ") ckpt_to_seq=" *)
    ++ (match ckpt with Some c => dec c | None => L_none end)
    ++ [32;114;101;115;101;116;115;61] ++ dec resets                        (* " resets=" *)
  | SContinuityContextCompiled run bundle strat =>
    L_run ++ trunc 16 run ++ [32;98;117;110;100;108;101;61] ++ trunc 16 bundle   (* " bundle=" *)
    ++ [32; 40] ++ trunc 32 strat ++ [41]
  | SContinuityProviderCursorUpdated provider action cursor =>
    let head := [112;114;111;118;105;100;101;114;61] ++ trunc 16 provider        (* "provider=" *)
                ++ [32;97;99;116;105;111;110;61] ++ trunc 16 action in           (* " action=" *)
    match cursor with
    | Some p => if is_nil (trunc 16 p) then head ++ [32;99;117;114;115;111;114;61;115;101;116]  (* " cursor=set" *)
                else head ++ [32;112;114;101;118;61] ++ trunc 16 p               (* " prev=" *)
    | None => head ++ [32;99;117;114;115;111;114;61;110;111;110;101]             (* " cursor=none" *)
    end
  | SContinuityCompactionCheckpointCreated ckpt to_seq summary rule =>
    [99;107;112;116;61] ++ trunc 16 ckpt ++ [32;116;111;95;115;101;113;61] ++ dec to_seq   (* "ckpt=" " to_seq=" *)
    ++ [32;115;117;109;109;97;114;121;61] ++ trunc 16 summary ++ [32; 40] ++ trunc 32 rule ++ [41]  (* " summary=" *)
  | SContinuityCompactionAutoScheduleDecided policy decision job =>
    let head := [112;111;108;105;99;121;61] ++ trunc 32 policy                   (* "policy=" *)
                ++ [32;100;101;99;105;115;105;111;110;61] ++ trunc 32 decision in (* " decision=" *)
    match job with
    | Some j => head ++ [32;106;111;98;61] ++ trunc 16 j                         (* " job=" *)
    | None => head
    end
  | SContinuityJobSpawned jk jid => [106;111;98;61] ++ trunc 32 jk ++ [32;105;100;61] ++ trunc 16 jid  (* "job=" " id=" *)
  | SContinuityJobEnded jk jid status =>
    [106;111;98;61] ++ trunc 32 jk ++ [32;105;100;61] ++ trunc 16 jid ++ [32; 40] ++ trunc 32 status ++ [41]
  | SContinuityRunEnded run reason => L_run ++ trunc 16 run ++ [32; 40] ++ trunc 32 reason ++ [41]
  | SContinuityToolSideEffects run tool paths =>
    L_run ++ trunc 16 run ++ [32;116;111;111;108;61] ++ trunc 32 tool            (* " tool=" *)
    ++ [32;40;112;97;116;104;115;61]                                            (* " (paths=" *)
    ++ (match paths with Some n => dec n | None => [63] end) ++ [41]
  | SContinuityBranched from sq | SContinuityHandoffCreated from sq =>
    [102;114;111;109;61] ++ trunc 16 from ++ [32; 64] ++ dec sq                  (* "from=" " @" *)
  | SToolStarted name => name
  | SToolEnded neg n => [101;120;105;116;61] ++ dec_signed neg n                 (* "exit=" *)
  | SProviderEvent status name ne nr =>
    let cnt := ne + nr in
    if (0 <? cnt) && negb (status =? 1) then
      (if status =? 2 then [105;110;118;97;108;105;100;95;106;115;111;110;32;40] ++ dec cnt ++ [41]   (* "invalid_json (" *)
       else [101;114;114;111;114;32;40] ++ dec cnt ++ [41])                                          (* "error (" *)
    else if status =? 0 then (match name with Some s => s | None => [101;118;101;110;116] end)       (* "event" *)
    else if status =? 1 then [100;111;110;101]                                                       (* "done" *)
    else [105;110;118;97;108;105;100;95;106;115;111;110]                                             (* "invalid_json" *)
  | SOpenResponsesRequest idx model body total truncated =>
    let head := [114;101;113;61] ++ dec idx ++ [32;109;111;100;101;108;61] ++ trunc 40 (or_unset model)  (* "req=" " model=" *)
                ++ [32;98;121;116;101;115;61] ++ dec body in                                          (* " bytes=" *)
    if truncated then head ++ [47] ++ dec total ++ [32;40;116;114;117;110;99;97;116;101;100;41]       (* " (truncated)" *)
    else head
  | SOpenResponsesRequestStarted idx model =>
    [114;101;113;61] ++ dec idx ++ [32;109;111;100;101;108;61] ++ trunc 40 (or_unset model)
    ++ [32;40;115;116;97;114;116;101;100;41]                                                          (* " (started)" *)
  | SOpenResponsesResponseHeaders idx status rid =>
    [114;101;113;61] ++ dec idx ++ [32;115;116;97;116;117;115;61] ++ dec status                       (* " status=" *)
    ++ (match rid with
        | Some r => if is_nil r then [] else [32;105;100;61] ++ trunc 16 r
        | None => [] end)
  | SOpenResponsesResponseFirstByte idx =>
    [114;101;113;61] ++ dec idx ++ [32;40;102;105;114;115;116;95;98;121;116;101;41]                   (* " (first_byte)" *)
  | SToolTaskSpawned name => name
  | SToolTaskStatus s => task_status_name s
  | SToolTaskResized rows cols => dec rows ++ [120] ++ dec cols
  | SToolTaskSignalled sig => sig
  end.

(* kinds whose summary is a field of the frame copied verbatim (no truncation in summary.rs) *)
Definition passthrough (k : skind) : option str :=
  match k with
  | SToolStarted s | SToolTaskSpawned s | SToolTaskSignalled s => Some s
  | SProviderEvent status (Some s) ne nr =>
    if (status =? 0) && negb (0 <? ne + nr) then Some s else None
  | _ => None
  end.

(* a whole frame: the summary functions look at the kind payload only *)
Record sframe := { sf_seq : N; sf_ts : N; sf_id : str; sf_session : str; sf_kind : skind }.
Definition summary_of (unp : list N) (f : sframe) : str := event_summary unp (sf_kind f).
Definition type_of (f : sframe) : str := event_type (sf_kind f).

(* ---------- correspondence plumbing ---------- *)
Record case := { c_unp : list N; c_kind : skind; c_type : str; c_summary : str }.
Definition check_case (c : case) : bool :=
  lN_eqb (event_type (c_kind c)) (c_type c) && lN_eqb (event_summary (c_unp c) (c_kind c)) (c_summary c).
Definition model_obs (c : case) : list N :=
  event_type (c_kind c) ++ [0] ++ event_summary (c_unp c) (c_kind c).
