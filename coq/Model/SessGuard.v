(* C01 - the single writer of a session (run) stream.
   A session stream is numbered by a run-local counter (session.rs: the kernel Session's seq, threaded
   through the provider pipe and the tool runner), so its order rests on there being ONE run per
   session id.  That is what the started-guard at the head of SessionEngine::spawn_session
   (crates/ripd/src/runner.rs) provides when several clients post input to the same session at the
   same instant.  This file models the guard (its kind is read from the source on every run:
   Gen/AppendOps.v gen_sess_guard) and composes it with the transition system of Model/ContStore.v:
   every accepted caller spawns one run = one `session_prog` actor on the handle's session id.
   Executable definitions only; proofs in Proofs/SessGuardProofs.v. *)
From RipV Require Import Base.Prelude Model.Frames Model.Log Model.ContStore.

(* kind of the guard:
     SgAtomicRmw     `if handle.started.swap(true) { return false }` (or compare_exchange / fetch_or):
                     test and set are ONE step;
     SgCheckThenSet  `if handle.started.load() { return false }` ... tokio::spawn(run_session) ...
                     `handle.started.store(true)`: the test is one step, spawn-and-set a later one. *)
Inductive sguard := SgAtomicRmw | SgCheckThenSet.
Definition sg_atomic (gk : sguard) : bool := match gk with SgAtomicRmw => true | SgCheckThenSet => false end.
Definition sg_eqb (a b : sguard) : bool :=
  match a, b with SgAtomicRmw, SgAtomicRmw | SgCheckThenSet, SgCheckThenSet => true | _, _ => false end.
(* the guard as built (compared with the source by the generated obligation gen_sess_guard_ok) *)
Definition SESS_GUARD : sguard := SgAtomicRmw.

(* where a caller of spawn_session stands *)
Inductive gpc := GInit | GPassed | GAccepted | GRejected.
Definition gpc_accepted (p : gpc) : bool := match p with GAccepted => true | _ => false end.
Definition gpc_passed (p : gpc) : bool := match p with GPassed => true | _ => false end.

Fixpoint gset (l : list gpc) (a : nat) (v : gpc) : list gpc :=
  match l, a with
  | [], _ => []
  | _ :: r, O => v :: r
  | x :: r, S a' => x :: gset r a' v
  end.

(* one step of caller `a`; state = (handle.started, pc of every caller).  A caller id that names no
   caller, or a caller that has returned, does nothing. *)
Definition gstep (gk : sguard) (st : bool * list gpc) (a : nat) : bool * list gpc :=
  match nth_error (snd st) a with
  | Some GInit =>
    match gk with
    | SgAtomicRmw =>
      if fst st then (true, gset (snd st) a GRejected)      (* swap saw true: return false *)
      else (true, gset (snd st) a GAccepted)                (* swap saw false and set true: the run is spawned *)
    | SgCheckThenSet =>
      if fst st then (fst st, gset (snd st) a GRejected)    (* load saw true: return false *)
      else (false, gset (snd st) a GPassed)                 (* load saw false; nothing written yet *)
    end
  | Some GPassed => (true, gset (snd st) a GAccepted)       (* tokio::spawn(run_session(..)); started.store(true) *)
  | _ => st
  end.

Definition grun (gk : sguard) (n : nat) (sched : list nat) : bool * list gpc :=
  fold_left (gstep gk) sched (false, repeat GInit n).

Definition accepted_n (pcs : list gpc) : nat := length (filter gpc_accepted pcs).

(* the runs of one session: every accepted input spawns run_session on the handle's session id; each
   run starts its own kernel Session, i.e. numbers from 0 *)
Definition runs_of (k : nat) (sid : N) (ts : list etype) : list (list mstep * N) :=
  repeat (session_prog ts, sid) k.
Definition session_actors (gk : sguard) (n : nat) (gsched : list nat) (sid : N) (ts : list etype)
  : list (list mstep * N) :=
  runs_of (accepted_n (snd (grun gk n gsched))) sid ts.

(* ---------- correspondence: concurrent inputs to ONE session, stepped through the hook point
   session.spawn.guarded (every caller takes its first step in turn - it parks at the point or returns -,
   then all are released) ---------- *)
Record case_sg := {
  sg_n : N;                 (* number of concurrent callers *)
  sg_ts : list etype;       (* the frames one run of this input writes (measured on an un-raced session) *)
  sg_sched : list N;        (* caller granted at every guard step *)
  sg_expect : list N        (* [accepted inputs; did the session stream validate; the stream canonically] *)
}.

(* the accepted runs, one after the other (with the guard as built at most one exists, so the order of
   their frames is not a choice) *)
Definition sg_log (k : nat) (ts : list etype) : log :=
  s_log (run (concat (map (fun i => repeat (N.of_nat i) (length ts)) (List.seq 0 k)))
             (spawn (runs_of k 0 ts) empty_state)).
Definition model_obs_sg (c : case_sg) : list N :=
  let k := accepted_n (snd (grun SESS_GUARD (N.to_nat (sg_n c)) (map N.to_nat (sg_sched c)))) in
  let l := sg_log k (sg_ts c) in
  N.of_nat k :: (if validate l then 1 else 0) :: canon_log l.
Definition check_case_sg (c : case_sg) : bool := lN_eqb (model_obs_sg c) (sg_expect c).

(* ---------- the run-local counter (session.rs; the kernel Session's seq threaded through the provider
   pipe, the tool runner and the checkpoint helpers as `&mut u64`) ----------
   A run is a sequence of emit sites; a site writes one frame carrying the counter and then adds `k` to
   it.  The code as built has k = 1 at every site (re-extracted from the source on every run:
   Gen/AppendOps.v gen_emit_sites); a site that forgets its increment (k = 0: the shape of seeded
   change C01-3) makes the next frame repeat the seq. *)
Fixpoint run_frames (sid cnt : N) (sites : list (etype * N)) : log :=
  match sites with
  | [] => []
  | (t, k) :: r => {| fid := 0; sid := sid; seq := cnt; ety := t; args := [] |} :: run_frames sid (cnt + k) r
  end.

(* a static emit site as the extractor reports it: (line of the frame literal, how many `counter += 1`
   statements stand between it and the next read of the counter / the end of its block) *)
Definition sites_ok (sites : list (N * N)) : bool :=
  negb (Nat.eqb (length sites) 0) && forallb (fun s => snd s =? 1) sites.

(* ---------- correspondence: runs next to store writers under a controlled schedule ----------
   An actor is a list of calls; a call is one of the store operations of Model/ContStore.v (`cop`) or a
   whole run: `session_prog ts` on the actor's own fresh session stream and, for a run linked to a thread
   (POST /threads/{id}/messages), the closing append_run_ended on that thread. *)
Inductive mop :=
| MOp (o : cop)
| MRun (ts : list etype) (link : option nat)
(* one call that makes several locked appends on one thread, e.g. a compaction job run to completion
   (compaction_auto_v1: job_spawned, checkpoint_created .., job_ended; the kinds are what the call appended) *)
| MAppends (th : nat) (ts : list etype).

Definition prog_of_mop (l : log) (o : mop) : list mstep :=
  match o with
  | MOp c => prog_of_cop l c
  | MRun ts None => session_prog ts
  | MRun ts (Some th) => session_prog ts ++ MTarget (nth_thread l th) :: locked_append EContinuityRunEnded []
  | MAppends th ts => concat (map (fun t => MTarget (nth_thread l th) :: locked_append t []) ts)
  end.

(* session ids of the actors of a case: distinct, and unused by anything a set-up history writes *)
Definition MIX_SESS_BASE : N := 1000000.
Fixpoint mix_from (i : N) (l : log) (acts : list (list mop)) : list (list mstep * N) :=
  match acts with
  | [] => []
  | ops :: r => (concat (map (prog_of_mop l) ops), MIX_SESS_BASE + i) :: mix_from (i + 1) l r
  end.
Definition mix_actors (l : log) (acts : list (list mop)) : list (list mstep * N) := mix_from 0 l acts.

Record case_mix := {
  mx_setup : list call;
  mx_actors : list (list mop);
  mx_sched : list N;
  mx_expect : list N
}.
Definition run_case_mix (c : case_mix) : state :=
  let '(_, st) := run_calls empty_state (mx_setup c) in
  run (mx_sched c) (spawn (mix_actors (s_log st) (mx_actors c)) st).
Definition model_obs_mix (c : case_mix) : list N :=
  let l := s_log (run_case_mix c) in (if validate l then 1 else 0) :: canon_log l.
Definition check_case_mix (c : case_mix) : bool := lN_eqb (model_obs_mix c) (mx_expect c).

(* an actor runs at most one run (its session stream is numbered by ONE run-local counter) *)
Definition mop_ok (cop_ok : cop -> bool) (o : mop) : bool :=
  match o with MOp c => cop_ok c | MRun ts _ => forallb is_sess ts | MAppends _ ts => forallb is_cont ts end.

(* ---------- any number of sessions, any number of concurrent inputs to each ---------- *)
Record sess_req := {
  sq_sid : N;               (* the session *)
  sq_ts : list etype;       (* what a run of its input writes *)
  sq_n : nat;               (* clients posting that input at the same time *)
  sq_gsched : list nat      (* schedule of their guard steps *)
}.
Definition sessions_actors (gk : sguard) (qs : list sess_req) : list (list mstep * N) :=
  concat (map (fun q => session_actors gk (sq_n q) (sq_gsched q) (sq_sid q) (sq_ts q)) qs).
(* one run per session: what the hypotheses of the theorem speak about *)
Definition one_run_each (qs : list sess_req) : list (list mstep * N) :=
  map (fun q => (session_prog (sq_ts q), sq_sid q)) qs.
