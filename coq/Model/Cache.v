(* C04 — executable model of the continuity read capabilities: the truth answers (functions of the
   truth stream alone) and the fast paths over the per-thread sidecar `continuity_streams/<id>.jsonl`
   (continuity_stream_cache.rs: try_replay, scan_sidecar_backwards, scan_tail; continuities.rs:
   replay_events, provider_cursor_status_v1, provider_cursor_rotate_v1, context_selection_status_v1,
   compaction_status_v1's tail loop and inflight scan, compaction_cut_points_v1, branch/handoff cut,
   latest checkpoint over the `.comp.v1.jsonl` sidecar).  No proofs here (Proofs/CacheProofs.v). *)
From RipV Require Import Base.Prelude Model.TailLoop.

(* ---------- frames of one continuity stream, as far as the queries inspect them ----------
   identity of a frame = its seq in the truth stream (the harness maps event ids, message ids and
   checkpoint ids to the seq of the frame that introduced them; run / job ids to ordinals) *)
Inductive fbody :=
| BCreated
| BMessage
| BRunSpawned (run mid : N)
| BRunEnded (run mid : N)
| BCheckpoint (cumulative : bool) (to_seq : N)
| BCursor (key : N)                 (* key = provider*100 + endpoint*10 + model; 0 = None *)
| BSelection
| BCompiled
| BSchedule
| BJobSpawned (job : N) (summarizer : bool)
| BJobEnded (job : N) (summarizer : bool)
| BOther.

Record frame := { fseq : N; flen : N (* bytes of the JSON line incl. '\n' *); fb : fbody }.
Definition log := list frame.

Definition is_message (f : frame) : bool := match fb f with BMessage => true | _ => false end.
Definition is_cursor (f : frame) : bool := match fb f with BCursor _ => true | _ => false end.
Definition is_selection (f : frame) : bool := match fb f with BSelection => true | _ => false end.
Definition is_schedule (f : frame) : bool := match fb f with BSchedule => true | _ => false end.
Definition is_job_outcome (f : frame) : bool := match fb f with BJobEnded _ true => true | _ => false end.
Definition is_checkpoint (f : frame) : bool := match fb f with BCheckpoint _ _ => true | _ => false end.

(* seq = 0,1,2,... in file order (what validate_event_order accepts for one stream) *)
Fixpoint contiguous_from (b : N) (l : list frame) : bool :=
  match l with [] => true | f :: r => (fseq f =? b) && contiguous_from (b + 1) r end.
Definition valid_log (l : log) : bool := contiguous_from 0 l.

(* ---------- sidecar files ---------- *)
Inductive line := LGood (f : frame) | LBad (len : N).   (* LBad: unparsable / foreign-stream line *)
Definition line_len (l : line) : N := match l with LGood f => flen f | LBad n => n end.
Definition sfile := option (list line).                  (* None: the file does not exist *)

Definition project_full (l : log) : list line := map LGood l.

Fixpoint all_good (ls : list line) : option (list frame) :=
  match ls with
  | [] => Some []
  | LGood f :: r => option_map (cons f) (all_good r)
  | LBad _ :: _ => None
  end.

(* try_replay: every line parses, belongs to the stream, seq = 0,1,2..; an empty file is an error *)
Definition try_replay (s : sfile) : sres frame :=
  match s with
  | None => SAbsent
  | Some ls =>
    match all_good ls with
    | None => SErr
    | Some fs => if contiguous_from 0 fs then match fs with [] => SErr | _ => STail fs true end else SErr
    end
  end.

(* replay_events: sidecar when accepted, else the truth stream (and the sidecar is rebuilt) *)
Definition replay_fast (s : sfile) (l : log) : list frame :=
  match try_replay s with STail fs _ => fs | _ => l end.
Definition full_after_replay (s : sfile) (l : log) : sfile :=
  match try_replay s with STail _ _ => s | _ => match l with [] => s | _ => Some (project_full l) end end.

(* scan_sidecar_backwards over lines, latest first: a line is parsed iff the '\n' that precedes it
   lies inside the byte window (the first line of the file: iff the window reaches offset 0) *)
Fixpoint take_back (w b : N) (rl : list line) : list line :=
  match rl with
  | [] => []
  | l :: r =>
    let b' := b + line_len l in
    match r with
    | [] => if b' <=? w then [l] else []
    | _ => if b' + 1 <=? w then l :: take_back w b' r else []
    end
  end.

Fixpoint firstnN {A} (n : N) (l : list A) : list A :=
  match l with
  | [] => []
  | x :: r => if n =? 0 then [] else x :: firstnN (n - 1) r
  end.

Definition total_len (ls : list line) : N := sumN (map line_len ls).

(* result: frames latest-first + complete *)
Definition scan_back (max_events max_bytes : N) (ls : list line) : sres frame :=
  match ls with
  | [] => STail [] true
  | _ =>
    let w := N.min (total_len ls) max_bytes in
    let parsed := firstnN max_events (take_back w 0 (rev ls)) in
    match all_good parsed with
    | None => SErr
    | Some fs_rev => STail fs_rev ((total_len ls <=? max_bytes) && (nlen ls <=? max_events))
    end
  end.

Fixpoint contiguous_any (l : list frame) : bool :=
  match l with
  | [] => true
  | f :: r => match r with [] => true | g :: _ => (fseq g =? fseq f + 1) && contiguous_any r end
  end.

(* scan_tail (full sidecar): oldest first + contiguity check of the window.  A scan that reports
   `complete` must begin with seq 0 (fix: a zero-byte file and a file re-created by a later append
   after the sidecar was lost used to be reported as the complete history — [strict_start = false]
   keeps the old behaviour for the refutation lemmas) *)
Definition starts_at_0 (fs : list frame) : bool :=
  match fs with f :: _ => fseq f =? 0 | [] => false end.
Definition scan_tail_gen (strict_start : bool) (s : sfile) (max_events max_bytes : N) : sres frame :=
  match s with
  | None => SAbsent
  | Some ls =>
    match scan_back max_events max_bytes ls with
    | STail fs_rev cpl =>
      let fs := rev fs_rev in
      if strict_start && cpl && negb (starts_at_0 fs) then SErr
      else if contiguous_any fs then STail fs cpl else SErr
    | r => r
    end
  end.
Definition scan_tail := scan_tail_gen true.
Definition scan_tail_unfixed := scan_tail_gen false.

(* ---------- small helpers ---------- *)
Fixpoint find_last {A} (p : A -> bool) (l : list A) : option A :=     (* latest element satisfying p *)
  match l with
  | [] => None
  | x :: r => match find_last p r with Some y => Some y | None => if p x then Some x else None end
  end.

Fixpoint put_if_absent (k v : N) (m : list (N * N)) : list (N * N) :=   (* sorted by key *)
  match m with
  | [] => [(k, v)]
  | (k', v') :: r =>
    if k <? k' then (k, v) :: m
    else if k =? k' then m
    else (k', v') :: put_if_absent k v r
  end.

Definition key_of (f : frame) : option N := match fb f with BCursor k => Some k | _ => None end.

(* The accumulators of three loops are maps / options that the Rust code keeps across the doubling
   scans (by_key + active, target, last_schedule_decision + last_job_outcome): those loops run the
   driver with the carried accumulator whatever the extractor says about pushed Vecs.  Only
   context_selection_status_v1 pushes into a Vec and is governed by [l_clears]. *)
Definition carry (c : cfg) : cfg :=
  {| l_initial := l_initial c; l_max_bytes := l_max_bytes c; l_max_events := l_max_events c;
     l_cap_break := l_cap_break c; l_clears := false; l_incomplete_fallback := l_incomplete_fallback c |}.

(* ---------- provider_cursor_status_v1 ---------- *)
Record cstat := { cs_active : option N; cs_keys : list (N * N) }.
Definition cstat0 : cstat := {| cs_active := None; cs_keys := [] |}.
Definition cstat_done (maxk : N) (a : cstat) : bool := maxk <=? nlen (cs_keys a).

(* one backward pass over frames given latest first *)
Fixpoint cstat_pass (maxk : N) (a : cstat) (rl : list frame) : cstat :=
  match rl with
  | [] => a
  | f :: r =>
    match key_of f with
    | None => cstat_pass maxk a r
    | Some k =>
      let a' := {| cs_active := match cs_active a with Some x => Some x | None => Some (fseq f) end;
                   cs_keys := put_if_absent k (fseq f) (cs_keys a) |} in
      if cstat_done maxk a' then a' else cstat_pass maxk a' r
    end
  end.
Definition cstat_examine (maxk : N) (a : cstat) (fs : list frame) : cstat := cstat_pass maxk a (rev fs).

Definition cursor_status_truth (maxk : N) (l : log) : cstat := cstat_examine maxk cstat0 l.

(* fast path; [c] is the extracted loop configuration *)
Definition cursor_status_fast_with (scan : N -> N -> sres frame) (c : cfg) (maxk : N) (s : sfile) (l : log) : option cstat :=
  match run_loop (carry c) scan cstat0 (cstat_examine maxk) (cstat_done maxk) with
  | None => None                                   (* the loop does not terminate *)
  | Some st =>
    let exhaustive := s_complete st || cstat_done maxk (s_acc st) in
    if negb (s_scanned st) || (l_incomplete_fallback c && negb exhaustive)
    then Some (cstat_examine maxk cstat0 (replay_fast s l))
    else Some (s_acc st)
  end.
Definition cursor_status_fast (c : cfg) (maxk : N) (s : sfile) (l : log) : option cstat :=
  cursor_status_fast_with (scan_tail s) c maxk s l.

(* ---------- provider_cursor_rotate_v1: the target key ---------- *)
Definition key_matches (fp fe fm : option N) (k : N) : bool :=
  let p := k / 100 in let e := (k / 10) mod 10 in let m := k mod 10 in
  match fp with Some x => p =? x | None => true end
  && match fe with Some x => e =? x | None => true end
  && match fm with Some x => m =? x | None => true end.

Fixpoint rot_pass (fp fe fm : option N) (a : option N) (rl : list frame) : option N :=
  match a with
  | Some _ => a
  | None =>
    match rl with
    | [] => None
    | f :: r => match key_of f with
                | Some k => if key_matches fp fe fm k then Some k else rot_pass fp fe fm None r
                | None => rot_pass fp fe fm None r
                end
    end
  end.
Definition rot_examine fp fe fm (a : option N) (fs : list frame) : option N := rot_pass fp fe fm a (rev fs).
Definition is_some {A} (o : option A) : bool := match o with Some _ => true | None => false end.

Definition rotate_target_truth fp fe fm (l : log) : option N := rot_examine fp fe fm None l.
Definition rotate_target_fast (c : cfg) fp fe fm (s : sfile) (l : log) : option (option N) :=
  match run_loop (carry c) (scan_tail s) None (rot_examine fp fe fm) is_some with
  | None => None
  | Some st => match s_acc st with
               | Some k => Some (Some k)
               | None => Some (rot_examine fp fe fm None (replay_fast s l))
               end
  end.

(* ---------- context_selection_status_v1 ---------- *)
Fixpoint sel_pass (limit : N) (a : list N) (rl : list frame) : list N :=
  match rl with
  | [] => a
  | f :: r =>
    if is_selection f then
      let a' := a ++ [fseq f] in
      if limit <=? nlen a' then a' else sel_pass limit a' r
    else sel_pass limit a r
  end.
Definition sel_examine (limit : N) (a : list N) (fs : list frame) : list N := sel_pass limit a (rev fs).
Definition sel_done (limit : N) (a : list N) : bool := limit <=? nlen a.

Definition selection_truth (limit : N) (l : log) : list N := sel_examine limit [] l.
Definition selection_fast_with (scan : N -> N -> sres frame) (c : cfg) (limit : N) (s : sfile) (l : log) : option (list N) :=
  match run_loop c scan [] (sel_examine limit) (sel_done limit) with
  | None => None
  | Some st =>
    if negb (s_scanned st) || (negb (s_complete st) && negb (sel_done limit (s_acc st)))
    then Some (sel_examine limit [] (replay_fast s l))
    else Some (s_acc st)
  end.
Definition selection_fast (c : cfg) (limit : N) (s : sfile) (l : log) : option (list N) :=
  selection_fast_with (scan_tail s) c limit s l.

(* ---------- compaction_status_v1: schedule decision / job outcome tail loop ---------- *)
Record cstatus := { st_sched : option N; st_job : option N }.
Definition cstatus0 : cstatus := {| st_sched := None; st_job := None |}.
Definition cstatus_done (a : cstatus) : bool := is_some (st_sched a) && is_some (st_job a).
Fixpoint cstatus_pass (a : cstatus) (rl : list frame) : cstatus :=
  match rl with
  | [] => a
  | f :: r =>
    let a' := {| st_sched := match st_sched a with Some x => Some x | None => if is_schedule f then Some (fseq f) else None end;
                 st_job := match st_job a with Some x => Some x | None => if is_job_outcome f then Some (fseq f) else None end |} in
    if cstatus_done a' then a' else cstatus_pass a' r
  end.
Definition cstatus_examine (a : cstatus) (fs : list frame) : cstatus := cstatus_pass a (rev fs).
Definition cstatus_truth (l : log) : cstatus := cstatus_examine cstatus0 l.
(* the replay after the loop fills only what is still missing *)
Definition cstatus_fast (c : cfg) (s : sfile) (l : log) : option cstatus :=
  match run_loop (carry c) (scan_tail s) cstatus0 cstatus_examine cstatus_done with
  | None => None
  | Some st => if cstatus_done (s_acc st) then Some (s_acc st)
               else Some (cstatus_examine (s_acc st) (replay_fast s l))
  end.

(* inflight compaction job: one bounded scan, no truth fallback *)
Fixpoint inflight_pass (ended : list N) (rl : list frame) : option N :=
  match rl with
  | [] => None
  | f :: r =>
    match fb f with
    | BJobEnded j true => inflight_pass (j :: ended) r
    | BJobSpawned j true => if existsb (N.eqb j) ended then inflight_pass ended r else Some j
    | _ => inflight_pass ended r
    end
  end.
Definition inflight_scan (max_events max_bytes : N) (s : sfile) : option (option N) :=
  match scan_tail s max_events max_bytes with
  | STail fs _ => Some (inflight_pass [] (rev fs))
  | _ => None
  end.
(* before the fix: no sidecar => "no inflight job" *)
Definition inflight_fast_unfixed (max_events max_bytes : N) (s : sfile) : option N :=
  match inflight_scan max_events max_bytes s with Some r => r | None => None end.
(* fixed: a missing / damaged sidecar is rebuilt through replay_events and scanned again *)
Definition inflight_fast (max_events max_bytes : N) (s : sfile) (l : log) : option N :=
  match inflight_scan max_events max_bytes s with
  | Some r => r
  | None => match inflight_scan max_events max_bytes (full_after_replay s l) with Some r => r | None => None end
  end.
(* "truth" = the same bounded scan over the sidecar rebuilt from the truth stream *)
Definition inflight_truth (max_events max_bytes : N) (l : log) : option N :=
  inflight_fast_unfixed max_events max_bytes (Some (project_full l)).

(* ---------- checkpoints ---------- *)
Definition ck_to_seq (f : frame) : N := match fb f with BCheckpoint _ t => t | _ => 0 end.
(* best = greatest to_seq, ties: later frame *)
Definition ck_better (f best : frame) : bool :=
  (ck_to_seq best <? ck_to_seq f) || ((ck_to_seq f =? ck_to_seq best) && (fseq best <? fseq f)).
Fixpoint latest_ckpt (max_to : N) (best : option frame) (fs : list frame) : option frame :=
  match fs with
  | [] => best
  | f :: r =>
    if is_checkpoint f && (ck_to_seq f <=? max_to)
    then latest_ckpt max_to (match best with None => Some f | Some b => if ck_better f b then Some f else Some b end) r
    else latest_ckpt max_to best r
  end.
Definition latest_ckpt_truth (max_to : N) (l : log) : option frame := latest_ckpt max_to None l.

(* the `.comp.v1.jsonl` sidecar: used as found when it exists, else built from the full sidecar's
   checkpoint lines (no file when there is none); one backward scan, which must be complete *)
Definition comp_projection (fs : list frame) : list line := map LGood (filter is_checkpoint fs).
Inductive ckres := CkNone | CkErr | CkSome (f : option frame).
Definition header_project (ls : list line) : option (list line) :=    (* None = a line failed to parse *)
  option_map comp_projection (all_good ls).
(* a zero-length derived sidecar is a lost sidecar, not the history of a thread without such frames
   (ensure_*_sidecar_best_effort_v1, derived_sidecar_holds_data; S4c, fixed in /repo) *)
Definition comp_seen (comp : sfile) : sfile := match comp with Some [] => None | _ => comp end.
Definition latest_ckpt_cache (bmax_events bmax_bytes : N) (comp full : sfile) (max_to : N) : ckres :=
  let file := match comp_seen comp with
              | Some ls => Some (Some ls)
              | None => match full with
                        | None => Some None
                        | Some fl => match header_project fl with
                                     | None => None
                                     | Some [] => Some None
                                     | Some ls => Some (Some ls)
                                     end
                        end
              end in
  match file with
  | None => CkErr
  | Some None => CkNone
  | Some (Some ls) =>
    match scan_back bmax_events bmax_bytes ls with
    | STail fs_rev cpl => if cpl then CkSome (latest_ckpt max_to None fs_rev) else CkErr   (* /repo c5f41f6 *)
    | _ => CkErr
    end
  end.

(* the reader before the S4c fix: a zero-length checkpoint sidecar `exists` and scans as a complete empty history *)
Definition latest_ckpt_cache_unfixed (bmax_events bmax_bytes : N) (comp full : sfile) (max_to : N) : ckres :=
  match comp with
  | Some ls =>
    match scan_back bmax_events bmax_bytes ls with
    | STail fs_rev cpl => if cpl then CkSome (latest_ckpt max_to None fs_rev) else CkErr
    | _ => CkErr
    end
  | None => latest_ckpt_cache bmax_events bmax_bytes None full max_to
  end.

(* compaction_status_v1.latest_checkpoint: the checkpoint sidecar (as found, or built from the full
   sidecar's line headers) when it yields a checkpoint, else the replay (need_replay) *)
Definition status_ckpt_fast (me mb : N) (comp full : sfile) (l : log) : option N :=
  match latest_ckpt_cache me mb comp full U64MAX with
  | CkSome (Some f) => Some (fseq f)
  | _ => option_map fseq (latest_ckpt U64MAX None (replay_fast full l))
  end.

(* ---------- compaction_cut_points_v1 (truth) ---------- *)
Record cutpoint := { cp_ordinal : N; cp_to_seq : N; cp_already : bool; cp_latest : option N }.
Definition messages (l : log) : list frame := filter is_message l.

Definition cut_point_at (l : log) (ordinal : N) : option cutpoint :=
  match nth_error (messages l) (N.to_nat (ordinal - 1)) with
  | None => None
  | Some m =>
    let best := latest_ckpt (fseq m) None l in
    let already := match best with Some b => ck_to_seq b =? fseq m | None => false end in
    Some {| cp_ordinal := ordinal; cp_to_seq := fseq m; cp_already := already;
            cp_latest := if already then option_map fseq best else None |}
  end.

Fixpoint cut_points_from (l : log) (stride latest : N) (i : N) (n : nat) : list cutpoint :=
  match n with
  | O => []
  | S n' =>
    let ordinal := latest - i * stride in
    if ordinal =? 0 then []
    else match cut_point_at l ordinal with
         | Some cp => cp :: cut_points_from l stride latest (i + 1) n'
         | None => cut_points_from l stride latest (i + 1) n'
         end
  end.

Definition clamp_limit (limit : N) : N := N.max 1 (N.min limit 32).
Definition cut_points_truth (l : log) (stride limit : N) : N * list cutpoint :=
  let count := nlen (messages l) in
  let latest := (count / stride) * stride in
  (count, if latest =? 0 then [] else cut_points_from l stride latest 0 (N.to_nat (clamp_limit limit))).

(* ---------- compaction_cut_points_v1 through the caches ----------
   The message count and the ordinal look-ups go through the ordinal index (Model below: ord_count /
   ord_by_ordinal); here they are taken as answered from an index that is the projection (the
   harness compares this path only on such stores).  Per cut point the checkpoint look-up goes
   through the `.comp` sidecar; `Ok(None)` is believed when the full sidecar has a readable last
   line, `Err` (and `Ok(None)` without a full sidecar) falls back to the replay — and once the
   replay has been read ([replayed]) every later cut point without a cache answer consults it. *)
Definition full_has_last (full : sfile) : bool :=
  match full with
  | Some ls => match rev ls with LGood _ :: _ => true | _ => false end
  | None => false
  end.

Definition mk_cut_point (ordinal : N) (m : frame) (best : option frame) : cutpoint :=
  let already := match best with Some b => ck_to_seq b =? fseq m | None => false end in
  {| cp_ordinal := ordinal; cp_to_seq := fseq m; cp_already := already;
     cp_latest := if already then option_map fseq best else None |}.

(* -> (best checkpoint for this cut point, replayed') *)
Definition ckpt_lookup (me mb : N) (comp full : sfile) (l : log) (replayed : bool) (mt : N) : option frame * bool :=
  let from_replay := latest_ckpt mt None (replay_fast full l) in
  match latest_ckpt_cache me mb comp full mt with
  | CkSome (Some f) => (Some f, replayed)
  | CkErr => (from_replay, true)
  | _ => if replayed then (from_replay, true)
         else if full_has_last full then (None, false) else (from_replay, true)
  end.

Fixpoint cut_points_fast_from (me mb : N) (comp full : sfile) (l : log) (stride latest : N) (i : N)
         (replayed : bool) (n : nat) : list cutpoint :=
  match n with
  | O => []
  | S n' =>
    let ordinal := latest - i * stride in
    if ordinal =? 0 then []
    else match nth_error (messages l) (N.to_nat (ordinal - 1)) with
         | Some m =>
           let '(best, rp) := ckpt_lookup me mb comp full l replayed (fseq m) in
           mk_cut_point ordinal m best :: cut_points_fast_from me mb comp full l stride latest (i + 1) rp n'
         | None => cut_points_fast_from me mb comp full l stride latest (i + 1) replayed n'
         end
  end.

Definition cut_points_fast (me mb : N) (comp full : sfile) (l : log) (stride limit : N) : N * list cutpoint :=
  let count := nlen (messages l) in
  let latest := (count / stride) * stride in
  (count, if latest =? 0 then [] else cut_points_fast_from me mb comp full l stride latest 0 false (N.to_nat (clamp_limit limit))).

(* ---------- branch / handoff cut resolution (over replay_events) ---------- *)
Inductive cutsel := CutHead | CutSeq (s : N) | CutMsg (m : N).
Definition head_seq (fs : list frame) : N := match rev fs with f :: _ => fseq f | [] => 0 end.
Definition related (m : N) (f : frame) : bool :=
  match fb f with BRunSpawned _ x => x =? m | BRunEnded _ x => x =? m | _ => false end.
(* result: None = error; Some (cut seq, message id) *)
Definition resolve_cut (fs : list frame) (sel : cutsel) : option (N * option N) :=
  match fs with
  | [] => None
  | _ =>
    match sel with
    | CutHead => Some (head_seq fs, option_map fseq (find_last is_message fs))
    | CutSeq s => if head_seq fs <? s then None
                  else Some (s, option_map fseq (find_last (fun f => is_message f && (fseq f <=? s)) fs))
    | CutMsg m =>
      match find_last (fun f => is_message f && (fseq f =? m)) fs with
      | None => None
      | Some _ =>
        let rel := filter (fun f => (is_message f && (fseq f =? m)) || related m f) fs in
        (* max_related_seq: reset to the message's own seq when the message frame is met *)
        Some (fold_left (fun acc f => if is_message f then fseq f else N.max acc (fseq f)) rel 0, Some m)
      end
    end
  end.
Definition cut_truth (l : log) (sel : cutsel) := resolve_cut l sel.
Definition cut_fast (s : sfile) (l : log) (sel : cutsel) := resolve_cut (replay_fast s l) sel.

(* ---------- faithfulness of the full sidecar (what the readers cannot see through: K1) ---------- *)
(* longest all-good, seq-contiguous run at the end of the file, oldest first *)
Fixpoint good_run_rev (rl : list line) (acc : list frame) : list frame :=
  match rl with
  | LGood f :: r =>
    match acc with
    | [] => good_run_rev r [f]
    | g :: _ => if fseq g =? fseq f + 1 then good_run_rev r (f :: acc) else acc
    end
  | _ => acc
  end.
Definition good_tail (ls : list line) : list frame := good_run_rev (rev ls) [].

Definition frame_eqb (a b : frame) : bool :=
  (fseq a =? fseq b) && (flen a =? flen b) &&
  match fb a, fb b with
  | BCreated, BCreated | BMessage, BMessage | BSelection, BSelection | BCompiled, BCompiled
  | BSchedule, BSchedule | BOther, BOther => true
  | BRunSpawned r m, BRunSpawned r' m' | BRunEnded r m, BRunEnded r' m' => (r =? r') && (m =? m')
  | BCheckpoint c t, BCheckpoint c' t' => Bool.eqb c c' && (t =? t')
  | BCursor k, BCursor k' => k =? k'
  | BJobSpawned j s, BJobSpawned j' s' | BJobEnded j s, BJobEnded j' s' => (j =? j') && Bool.eqb s s'
  | _, _ => false
  end.

Definition is_suffix_b (s l : list frame) : bool :=
  (length s <=? length l)%nat && list_eqb frame_eqb s (skipn (length l - length s) l).

(* K1 does NOT hold: every window the tail readers accept is a tail of the truth stream *)
Definition tail_faithful (l : log) (s : sfile) : bool :=
  match s with None => true | Some ls => is_suffix_b (good_tail ls) l end.

(* ---------- the message ordinal index `.mr.msgord.v1.bin` (message_ordinal_index.rs) ----------
   32-byte header + 24-byte records (seq, message uuid); a record is identified by the seq of its
   message.  [OFile recs torn]: valid header, [recs] = the leading complete records, [torn] = number
   of bytes behind them modulo 24 (0 = record-aligned).  Bytes appended behind a torn record are not
   readable as records: they keep the file misaligned. *)
Inductive ofile :=
| OAbsent
| OEmpty                      (* zero bytes *)
| OBadHeader                  (* shorter than the header, or wrong magic / version *)
| OFile (recs : list N) (torn : N).

(* append_message_record_best_effort_v1: create + header when absent / empty, give up on a bad
   header, otherwise write 24 bytes at the end — whatever the alignment *)
Definition ord_append (f : ofile) (seq : N) : ofile :=
  match f with
  | OAbsent | OEmpty => OFile [seq] 0
  | OBadHeader => OBadHeader
  | OFile recs torn => if torn =? 0 then OFile (recs ++ [seq]) 0 else OFile recs torn
  end.

Inductive ores (A : Type) := OErr | ONone | OSome (a : A).
Arguments OErr {A}.
Arguments ONone {A}.
Arguments OSome {A} _.

(* message_count_messages_runs_v1: message_count_v1 (alignment) + the only cross-check there is —
   the last record against the last message of the messages+runs sidecar ([mr_last]: Err / no
   message / seq of the last message) *)
Definition ord_count (f : ofile) (mr_last : ores N) : ores N :=
  match f with
  | OAbsent => ONone
  | OEmpty | OBadHeader => OErr
  | OFile recs torn =>
    if negb (torn =? 0) then OErr
    else match mr_last with
         | OSome last => match rev recs with
                         | r :: _ => if r =? last then OSome (nlen recs) else OErr
                         | [] => OErr
                         end
         | _ => OErr
         end
  end.

(* message_by_ordinal_messages_runs_v1: record #k (1-based), accepted only when the message-id
   index (rebuilt from the mr sidecar on a miss) knows that message at that seq *)
Definition ord_by_ordinal (f : ofile) (known : N -> bool) (k : N) : ores N :=
  match f with
  | OAbsent => ONone
  | OEmpty | OBadHeader => OErr
  | OFile recs _ =>
    if k =? 0 then ONone
    else match nth_error recs (N.to_nat (k - 1)) with
         | Some r => if known r then OSome r else OErr
         | None => ONone          (* beyond the complete records: absent, or shifted bytes that no index knows *)
         end
  end.

Definition ofile_eqb (a b : ofile) : bool :=
  match a, b with
  | OAbsent, OAbsent | OEmpty, OEmpty | OBadHeader, OBadHeader => true
  | OFile r t, OFile r' t' => lN_eqb r r' && (t =? t')
  | _, _ => false
  end.

(* one observed write step of the index: the file before and after an append of message [os_seq];
   [os_msgs] = the thread's message seqs after the operation.  Conforming = the reference append on
   the file as found, or a rebuild from the truth stream *)
Record ord_step := { os_before : ofile; os_seq : N; os_after : ofile; os_msgs : list N }.
Definition ord_step_ok (s : ord_step) : bool :=
  ofile_eqb (os_after s) (ord_append (os_before s) (os_seq s))
  || ofile_eqb (os_after s) (OFile (os_msgs s) 0).

(* ---------- compaction_cut_points_v1 with the ordinal-index route modelled as well ----------
   (stores whose full and messages+runs sidecars are intact: a replay then returns the truth stream
   without rebuilding anything, so a failed count fails again and the message list of the replay is
   used; [loaded] = message_events is Some, [replayed] = replayed is Some) *)
Definition msg_seqs (l : log) : list N := map fseq (messages l).
Definition frame_at (l : log) (s : N) : option frame := nth_error l (N.to_nat s).
Definition mr_last_of (l : log) : ores N := match rev (msg_seqs l) with s :: _ => OSome s | [] => ONone end.

Fixpoint cut_points_ord_from (me mb : N) (comp full : sfile) (l : log) (ord : ofile) (known : N -> bool)
         (stride latest : N) (i : N) (replayed loaded : bool) (n : nat) : list cutpoint :=
  match n with
  | O => []
  | S n' =>
    let ordinal := latest - i * stride in
    if ordinal =? 0 then []
    else
      let by_idx := match ord_by_ordinal ord known ordinal with OSome sq => frame_at l sq | _ => None end in
      let from_msgs := nth_error (messages (replay_fast full l)) (N.to_nat (ordinal - 1)) in
      (* C04-F3 fix in /repo: when the message list of the replay is in hand ([loaded]: the index has just failed its
         validation for the count) the index is not consulted for the look-up either *)
      let '(m_opt, rp1, ld1) := if loaded then (from_msgs, true, true)
                                else match by_idx with
                                     | Some m => (Some m, replayed, loaded)
                                     | None => (from_msgs, true, true)
                                     end in
      match m_opt with
      | Some m =>
        let '(best, rp2) := ckpt_lookup me mb comp full l rp1 (fseq m) in
        mk_cut_point ordinal m best :: cut_points_ord_from me mb comp full l ord known stride latest (i + 1) rp2 ld1 n'
      | None => cut_points_ord_from me mb comp full l ord known stride latest (i + 1) rp1 ld1 n'
      end
  end.

Definition cut_points_ord (me mb : N) (comp full : sfile) (l : log) (ord : ofile) (known : N -> bool)
           (stride limit : N) : N * list cutpoint :=
  let '(count, rp, ld) := match ord_count ord (mr_last_of l) with
                          | OSome n => (n, false, false)
                          | _ => (nlen (messages (replay_fast full l)), true, true)
                          end in
  let latest := (count / stride) * stride in
  (count, if latest =? 0 then []
          else cut_points_ord_from me mb comp full l ord known stride latest 0 rp ld (N.to_nat (clamp_limit limit))).

(* the route before the C04-F3 fix: the ordinal index was asked for every ordinal even after its count had been rejected *)
Fixpoint cut_points_ord_from_unfixed (me mb : N) (comp full : sfile) (l : log) (ord : ofile) (known : N -> bool)
         (stride latest : N) (i : N) (replayed loaded : bool) (n : nat) : list cutpoint :=
  match n with
  | O => []
  | S n' =>
    let ordinal := latest - i * stride in
    if ordinal =? 0 then []
    else
      let by_idx := match ord_by_ordinal ord known ordinal with OSome sq => frame_at l sq | _ => None end in
      let from_msgs := nth_error (messages (replay_fast full l)) (N.to_nat (ordinal - 1)) in
      let '(m_opt, rp1, ld1) := match by_idx with
                                | Some m => (Some m, replayed, loaded)
                                | None => (from_msgs, true, true)
                                end in
      match m_opt with
      | Some m =>
        let '(best, rp2) := ckpt_lookup me mb comp full l rp1 (fseq m) in
        mk_cut_point ordinal m best :: cut_points_ord_from_unfixed me mb comp full l ord known stride latest (i + 1) rp2 ld1 n'
      | None => cut_points_ord_from_unfixed me mb comp full l ord known stride latest (i + 1) rp1 ld1 n'
      end
  end.

Definition cut_points_ord_unfixed (me mb : N) (comp full : sfile) (l : log) (ord : ofile) (known : N -> bool)
           (stride limit : N) : N * list cutpoint :=
  let '(count, rp, ld) := match ord_count ord (mr_last_of l) with
                          | OSome n => (n, false, false)
                          | _ => (nlen (messages (replay_fast full l)), true, true)
                          end in
  let latest := (count / stride) * stride in
  (count, if latest =? 0 then []
          else cut_points_ord_from_unfixed me mb comp full l ord known stride latest 0 rp ld (N.to_nat (clamp_limit limit))).

(* ---------- continuities/index.json: default-thread recovery (find_latest_continuity_for_workspace) ----------
   the continuity_created frames of the whole log, in log order: (timestamp_ms, thread id, workspace key) *)
Definition created := (N * N * N)%type.
Definition cr_ts (c : created) : N := fst (fst c).
Definition cr_id (c : created) : N := snd (fst c).
Definition cr_ws (c : created) : N := snd c.
(* the most recently created thread of the workspace; on equal timestamps the earlier frame stays *)
Fixpoint recover_default_from (ws : N) (best : option (N * N)) (cs : list created) : option N :=
  match cs with
  | [] => option_map snd best
  | c :: r =>
    if cr_ws c =? ws
    then recover_default_from ws (match best with
                                  | Some (ts, id) => if cr_ts c <=? ts then Some (ts, id) else Some (cr_ts c, cr_id c)
                                  | None => Some (cr_ts c, cr_id c)
                                  end) r
    else recover_default_from ws best r
  end.
Definition recover_default (ws : N) (cs : list created) : option N := recover_default_from ws None cs.
(* S15 fix in /repo: branch / handoff children (threads whose stream carries a continuity_branched /
   continuity_handoff_created frame) are never the workspace default; the scan recovers the newest thread that is
   not such a child and, only when every thread of the workspace is one, the newest.  `recover_default` alone is
   the scan before the fix. *)
Definition not_child (children : list N) (c : created) : bool := negb (existsb (N.eqb (cr_id c)) children).
Definition recover_default_fixed (ws : N) (cs : list created) (children : list N) : option N :=
  match recover_default ws (filter (not_child children) cs) with
  | Some id => Some id
  | None => recover_default ws cs
  end.

(* ---------- correspondence cases ---------- *)
Inductive query :=
| QReplay
| QCursorStatus
| QRotate (fp fe fm : option N)
| QSelection (limit : N)
| QStatusTail                         (* last_schedule_decision / last_job_outcome of compaction_status_v1 *)
| QInflight                           (* inflight_job_id, evaluated on a store whose derived caches are intact *)
| QCutPoints (stride limit : N)
| QLatestCkpt                         (* compaction_status_v1.latest_checkpoint *)
| QCut (sel : cutsel).

Definition enc_opt (o : option N) : list N := match o with None => [0] | Some x => [1; x] end.
Definition enc_list (l : list N) : list N := nlen l :: l.
Definition enc_bool (b : bool) : list N := [if b then 1 else 0].
Definition HANG : list N := [777777].
Definition ERR : list N := [999999].

Definition enc_cstat (a : cstat) : list N := enc_opt (cs_active a) ++ enc_list (map snd (cs_keys a)).
Definition enc_cstatus (a : cstatus) : list N := enc_opt (st_sched a) ++ enc_opt (st_job a).
Definition enc_cut (r : option (N * option N)) : list N :=
  match r with None => ERR | Some (s, m) => s :: enc_opt m end.
Definition enc_cp (c : cutpoint) : list N :=
  [cp_ordinal c; cp_to_seq c] ++ enc_bool (cp_already c) ++ enc_opt (cp_latest c).
Definition enc_cps (r : N * list cutpoint) : list N :=
  fst r :: nlen (snd r) :: concat (map enc_cp (snd r)).
Definition or_hang {A} (enc : A -> list N) (o : option A) : list N :=
  match o with None => HANG | Some a => enc a end.

(* loops: [compile_input; compaction_status; cursor_status; cursor_rotate; selection_status] *)
Record consts := { k_loops : list cfg; k_max_keys : N; k_inflight_events : N; k_inflight_bytes : N;
                   k_ckpt_events : N; k_ckpt_bytes : N (* latest_compaction_checkpoint_before_or_at_seq_v1 *) }.
Definition dcfg : cfg := {| l_initial := 1; l_max_bytes := 1; l_max_events := 1; l_cap_break := true;
                            l_clears := true; l_incomplete_fallback := true |}.
Definition loop_n (k : consts) (i : nat) : cfg := nth i (k_loops k) dcfg.

Definition q_truth (k : consts) (l : log) (q : query) : list N :=
  match q with
  | QReplay => enc_list (map fseq l)
  | QCursorStatus => enc_cstat (cursor_status_truth (k_max_keys k) l)
  | QRotate fp fe fm => enc_opt (rotate_target_truth fp fe fm l)
  | QSelection limit => enc_list (selection_truth limit l)
  | QStatusTail => enc_cstatus (cstatus_truth l)
  | QInflight => enc_opt (inflight_truth (k_inflight_events k) (k_inflight_bytes k) l)
  | QCutPoints stride limit => if stride =? 0 then ERR else enc_cps (cut_points_truth l stride limit)
  | QLatestCkpt => enc_opt (option_map fseq (latest_ckpt_truth U64MAX l))
  | QCut sel => enc_cut (cut_truth l sel)
  end.

(* fast answers that depend on the full sidecar only; None = not modelled at this level *)
Definition q_fast (k : consts) (s : sfile) (l : log) (q : query) : option (list N) :=
  match q with
  | QReplay => Some (enc_list (map fseq (replay_fast s l)))
  | QCursorStatus => Some (or_hang enc_cstat (cursor_status_fast (loop_n k 2) (k_max_keys k) s l))
  | QRotate fp fe fm => Some (or_hang enc_opt (rotate_target_fast (loop_n k 3) fp fe fm s l))
  | QSelection limit => Some (or_hang enc_list (selection_fast (loop_n k 4) limit s l))
  | QStatusTail => Some (or_hang enc_cstatus (cstatus_fast (loop_n k 1) s l))
  | QInflight => Some (enc_opt (inflight_fast (k_inflight_events k) (k_inflight_bytes k) s l))
  | QCut sel => Some (enc_cut (cut_fast s l sel))
  | _ => None
  end.

(* a sidecar line as the harness reports it: `G seq` = the truth frame with that seq, `B len` *)
Inductive rline := G (seq : N) | B (len : N).
Definition resolve_line (l : log) (r : rline) : line :=
  match r with
  | B n => LBad n
  | G s => match nth_error l (N.to_nat s) with Some f => LGood f | None => LBad 1 end
  end.

Record case := {
  c_log : log;
  c_full : option (list rline);
  c_query : query;
  c_cmp_fast : bool;          (* the full sidecar is what the fast path reads for this query
                                 (no other cache can trigger a rebuild first) *)
  c_truth : list N;           (* observed with continuity_streams/ removed *)
  c_fast : list N;            (* observed with the caches as found *)
  c_ord : list ord_step;      (* observed write steps of the ordinal index in this history (first case of a history only) *)
  c_comp : option (option (list rline));  (* Some = the checkpoint sidecar as found, for QLatestCkpt cases where nothing can
                                             rebuild the caches before the look-up; None = not compared *)
  c_recover : option (N * list created * list N * option N);  (* a default-thread recovery observed after the loss of index.json:
                                             workspace, continuity_created frames of the log, the threads with a branched /
                                             handoff frame, what ensure_default returned *)
  c_ordidx : option ofile     (* QCutPoints on a store with intact full and messages+runs sidecars: the ordinal index as found *)
}.

Definition case_full (c : case) : sfile := option_map (map (resolve_line (c_log c))) (c_full c).

Definition check_case (k : consts) (c : case) : bool :=
  valid_log (c_log c)
  && lN_eqb (q_truth k (c_log c) (c_query c)) (c_truth c)
  && (if c_cmp_fast c
      then match q_fast k (case_full c) (c_log c) (c_query c) with
           | Some a => lN_eqb a (c_fast c)
           | None => true
           end
      else true)
  && forallb ord_step_ok (c_ord c)
  && match c_comp c, c_query c, case_full c with
     | Some comp, QLatestCkpt, full =>
       lN_eqb (enc_opt (status_ckpt_fast (k_ckpt_events k) (k_ckpt_bytes k)
                          (option_map (map (resolve_line (c_log c))) comp) full (c_log c))) (c_fast c)
     | Some comp, QCutPoints stride limit, full =>
       (stride =? 0) ||
       lN_eqb (enc_cps (match c_ordidx c with
                        | Some ord => cut_points_ord (k_ckpt_events k) (k_ckpt_bytes k)
                                        (option_map (map (resolve_line (c_log c))) comp) full (c_log c) ord
                                        (fun sq => existsb (N.eqb sq) (msg_seqs (c_log c))) stride limit
                        | None => cut_points_fast (k_ckpt_events k) (k_ckpt_bytes k)
                                        (option_map (map (resolve_line (c_log c))) comp) full (c_log c) stride limit
                        end)) (c_fast c)
     | _, _, _ => true
     end
  && match c_recover c with
     | Some (ws, cs, children, got) => option_eqb N.eqb (recover_default_fixed ws cs children) got
     | None => true
     end.

Definition model_obs (k : consts) (c : case) : list N :=
  q_truth k (c_log c) (c_query c) ++ [555555]
  ++ match q_fast k (case_full c) (c_log c) (c_query c) with Some a => a | None => [444444] end.
