(* C02 correspondence cases: store histories (Model/ContStore.v, case02) and byte-level appends
   (Model/LogBytes.v) in one case type, so one harness run writes one family of case files. *)
From RipV Require Import Base.Prelude Model.Frames Model.Log Model.ContStore Model.LogBytes.

(* one EventLog::append of a frame whose line (frame + newline) has cb_len bytes, on a writer with an
   empty buffer: by how many bytes has the FILE grown at the hook point log.body_written (after the
   write_all, before the flush) and at log.flushed *)
Record case_bytes := { cb_len : N; cb_expect : list N }.

Definition line_of_len (n : N) : bytes := repeat 65 (N.to_nat (n - 1)) ++ [10].

Definition model_obs_bytes (c : case_bytes) : list N :=
  let line := line_of_len (cb_len c) in
  [blen (bw_file (bw_final bufwriter_capacity (bw_at []) [WWrite line]));
   blen (bw_file (bw_final bufwriter_capacity (bw_at []) [WWrite line; WFlush]))].

Inductive case02x :=
| CStore (c : case02)
| CBytes (c : case_bytes).

Definition model_obs_c02x (c : case02x) : list N :=
  match c with
  | CStore s => model_obs_c02 s
  | CBytes b => model_obs_bytes b
  end.
Definition check_case_c02x (c : case02x) : bool :=
  match c with
  | CStore s => check_case_c02 s
  | CBytes b => lN_eqb (model_obs_bytes b) (cb_expect b)
  end.
