(* C02 correspondence cases: store histories (Model/ContStore.v, case02) and byte-level appends
   (Model/LogBytes.v) in one case type, so one harness run writes one family of case files. *)
From RipV Require Import Base.Prelude Model.Frames Model.Log Model.ContStore Model.LogBytes Model.NoopPlan Model.C02Decide Model.LogFile.

(* one EventLog::append of a frame whose line (frame + newline) has cb_len bytes, on a writer with an
   empty buffer: by how many bytes has the FILE grown at the hook point log.body_written (after the
   write_all, before the flush) and at log.flushed *)
Record case_bytes := { cb_len : N; cb_expect : list N }.

Definition line_of_len (n : N) : bytes := repeat 65 (N.to_nat (n - 1)) ++ [10].

Definition model_obs_bytes (c : case_bytes) : list N :=
  let line := line_of_len (cb_len c) in
  [blen (bw_file (bw_final bufwriter_capacity (bw_at []) [WWrite line]));
   blen (bw_file (bw_final bufwriter_capacity (bw_at []) [WWrite line; WFlush]))].

(* ---------- histories with the second round of harness operations (builder log02b) ----------
   K k            a call / full-sidecar fault / restart of Model/ContStore.v
   KDerivedFault  a fault on ONE derived cache file of a thread (.mr / .comp sidecars, seek / message /
                  ordinal / checkpoint indexes): the model keeps the full sidecar only, and what a
                  capability appends is a function of the call and its facts - the model's claim is that
                  the state of those files does not matter for the log
   KSideGarbage   a line of garbage appended to (mid = false) / inserted in the middle of (mid = true)
                  the full sidecar of thread th
   KAge           the store is closed, every frame's timestamp moved into the past (or future) and the
                  store opened again; the model has no clock: a restart *)
Inductive call2 :=
| K (k : call)
| KDerivedFault
| KSideGarbage (mid : bool) (th : nat)
| KAge.

Definition garbage_lines (mid : bool) (ls : list sline) : list sline :=
  if mid then firstn (Nat.div2 (length ls)) ls ++ SJunk :: skipn (Nat.div2 (length ls)) ls
  else ls ++ [SJunk].

Definition side_garbage (sd : N -> option (list sline)) (mid : bool) (c : N) : N -> option (list sline) :=
  match sd c with
  | Some ls => upd sd c (Some (garbage_lines mid ls))
  | None => sd
  end.

Definition do_call2 (st : state) (k : call2) : state :=
  match k with
  | K k' => do_call st k'
  | KDerivedFault => st
  | KSideGarbage mid th => with_side st (side_garbage (s_side st) mid (nth_thread (s_log st) th))
  | KAge => restart st
  end.

Fixpoint run_calls2 (st : state) (ks : list call2) : list N * state :=
  match ks with
  | [] => ([], st)
  | k :: r => let st' := do_call2 st k in
              let '(ns, fin) := run_calls2 st' r in (nlen (s_log st') :: ns, fin)
  end.

Record case02b := { c2b_calls : list call2; c2b_expect : list N }.
Definition model_obs_c02b (c : case02b) : list N :=
  let '(ns, fin) := run_calls2 empty_state (c2b_calls c) in ns ++ canon_log (s_log fin).

(* ---------- histories of the third round (builder log02c; Model/C02Decide.v) ----------
   The decisions that used to be read off the implementation's response are taken by the model:
   D k        a call of the earlier rounds (capability with facts, cache fault, garbage, restart, ageing);
              a restart / ageing also re-loads the in-memory index from the index file
   DEnsure    ensure_default of the open store: in-memory index, else the LOG, else create
   DCursor    append_provider_cursor_updated(provider, endpoint?, model?) - Option as 0 / 1+x
   DRotate    provider_cursor_rotate_v1 with the filters provider? / endpoint? / model?: the model searches
   DLineage   branch / handoff (validation outcome from the response); the child carries the store's workspace
   DIdx       the harness replaces continuities/index.json (absent, unreadable, other version, older content)
   DReopen    the store is dropped and opened for workspace ws
   DRaw       a frame written to the log behind the store's back (no cache told), then a restart *)
Inductive call3 :=
| D (k : call2)
| DEnsure
| DCursor (th : nat) (p e m : N)
| DRotate (th : nat) (fp fe fm : N)
| DLineage (branch : bool) (th : nat) (ok : bool)
| DIdx (x : idx_fault)
| DReopen (ws : N)
| DRaw (th : nat) (t : etype) (ar : list N).

Definition reloads (k : call2) : bool :=
  match k with K KRestart | KAge => true | _ => false end.

Definition req_of (fp fe fm : N) : rot_req :=
  {| rq_provider := opt_of fp; rq_endpoint := opt_of fe; rq_model := opt_of fm |}.

(* the call and what the harness observes of it besides the log (DEnsure: answer_code) *)
Definition do_call3 (d : dstate) (k : call3) : dstate * list N :=
  let st := d_st d in
  match k with
  | D k2 =>
    let st' := do_call2 st k2 in
    (if reloads k2
     then {| d_st := st'; d_ws := d_ws d; d_file := d_file d; d_mem := load_index (d_file d) |}
     else with_st d st', [])
  | DEnsure => let '(d', a) := ensure false d in (d', [answer_code (d_ws d) (s_log (d_st d')) a])
  | DCursor th p e m =>
    (with_st d (exec (MTarget (nth_thread (s_log st) th)
                      :: locked_append EContinuityProviderCursorUpdated [p; e; m]) st), [])
  | DRotate th fp fe fm =>
    let c := nth_thread (s_log st) th in
    (with_st d (exec (rotate_prog false (knows (d_mem d) c) c (req_of fp fe fm) st) st), [])
  | DLineage br th ok =>
    (lineage d (if br then EContinuityBranched else EContinuityHandoffCreated) (nth_thread (s_log st) th) ok, [])
  | DIdx x =>
    ({| d_st := st; d_ws := d_ws d; d_file := apply_idx_fault (s_log st) x; d_mem := d_mem d |}, [])
  | DReopen ws => (reopen d ws, [])
  | DRaw th t ar =>
    (reopen (with_st d (raw_append st (nth_thread (s_log st) th) t ar)) (d_ws d), [])
  end.

Fixpoint run_calls3 (d : dstate) (ks : list call3) : list N * dstate :=
  match ks with
  | [] => ([], d)
  | k :: r => let '(d', extra) := do_call3 d k in
              let '(ns, fin) := run_calls3 d' r in (nlen (s_log (d_st d')) :: extra ++ ns, fin)
  end.

Record case03 := { c3_calls : list call3; c3_expect : list N }.
Definition model_obs_c03 (c : case03) : list N :=
  let '(ns, fin) := run_calls3 dstate0 (c3_calls c) in ns ++ canon_log (s_log (d_st fin)).

Inductive case02x :=
| CStore (c : case02)
| CStore2 (c : case02b)
| CBytes (c : case_bytes)
| CPlan (c : case_plan)       (* what one auto / auto-schedule call planned vs the planner of Model/NoopPlan.v *)
| CDecide (c : case03)        (* histories in which ensure_default and provider-cursor-rotate are decided by the model *)
| CLogFile (c : case_logfile). (* events.jsonl across restarts: opens, reads, torn tails, appends (Model/LogFile.v) *)

(* zl: does the source count a zero-byte checkpoint sidecar as absent (Model/NoopPlan.v `seen`); the case
   files use check_case_c02g / model_obs_c02g of Gen/Effects.v, which pass the value read off the source *)
Definition model_obs_c02x_zl (zl : bool) (c : case02x) : list N :=
  match c with
  | CStore s => model_obs_c02 s
  | CStore2 s => model_obs_c02b s
  | CBytes b => model_obs_bytes b
  | CPlan c => model_obs_plan zl c
  | CDecide c => model_obs_c03 c
  | CLogFile c => model_obs_logfile c
  end.
Definition check_case_c02x_zl (zl : bool) (c : case02x) : bool :=
  match c with
  | CStore s => check_case_c02 s
  | CStore2 s => lN_eqb (model_obs_c02b s) (c2b_expect s)
  | CBytes b => lN_eqb (model_obs_bytes b) (cb_expect b)
  | CPlan c => check_case_plan zl c
  | CDecide c => lN_eqb (model_obs_c03 c) (c3_expect c)
  | CLogFile c => lN_eqb (model_obs_logfile c) (lf_expect c)
  end.
Definition model_obs_c02x := model_obs_c02x_zl false.
Definition check_case_c02x := check_case_c02x_zl false.
