(* C02 correspondence cases: store histories (Model/ContStore.v, case02) and byte-level appends
   (Model/LogBytes.v) in one case type, so one harness run writes one family of case files. *)
From RipV Require Import Base.Prelude Model.Frames Model.Log Model.ContStore Model.LogBytes Model.NoopPlan.

(* one EventLog::append of a frame whose line (frame + newline) has cb_len bytes, on a writer with an
   empty buffer: by how many bytes has the FILE grown at the hook point log.body_written (after the
   write_all, before the flush) and at log.flushed *)
Record case_bytes := { cb_len : N; cb_expect : list N }.

Definition line_of_len (n : N) : bytes := repeat 65 (N.to_nat (n - 1)) ++ [10].

Definition model_obs_bytes (c : case_bytes) : list N :=
  let line := line_of_len (cb_len c) in
  [blen (bw_file (bw_final bufwriter_capacity (bw_at []) [WWrite line]));
   blen (bw_file (bw_final bufwriter_capacity (bw_at []) [WWrite line; WFlush]))].

(* ---------- histories with the second round of harness operations (builder log02b) ----------
   K k            a call / full-sidecar fault / restart of Model/ContStore.v
   KDerivedFault  a fault on ONE derived cache file of a thread (.mr / .comp sidecars, seek / message /
                  ordinal / checkpoint indexes): the model keeps the full sidecar only, and what a
                  capability appends is a function of the call and its facts - the model's claim is that
                  the state of those files does not matter for the log
   KSideGarbage   a line of garbage appended to (mid = false) / inserted in the middle of (mid = true)
                  the full sidecar of thread th
   KAge           the store is closed, every frame's timestamp moved into the past (or future) and the
                  store opened again; the model has no clock: a restart *)
Inductive call2 :=
| K (k : call)
| KDerivedFault
| KSideGarbage (mid : bool) (th : nat)
| KAge.

Definition garbage_lines (mid : bool) (ls : list sline) : list sline :=
  if mid then firstn (Nat.div2 (length ls)) ls ++ SJunk :: skipn (Nat.div2 (length ls)) ls
  else ls ++ [SJunk].

Definition side_garbage (sd : N -> option (list sline)) (mid : bool) (c : N) : N -> option (list sline) :=
  match sd c with
  | Some ls => upd sd c (Some (garbage_lines mid ls))
  | None => sd
  end.

Definition do_call2 (st : state) (k : call2) : state :=
  match k with
  | K k' => do_call st k'
  | KDerivedFault => st
  | KSideGarbage mid th => with_side st (side_garbage (s_side st) mid (nth_thread (s_log st) th))
  | KAge => restart st
  end.

Fixpoint run_calls2 (st : state) (ks : list call2) : list N * state :=
  match ks with
  | [] => ([], st)
  | k :: r => let st' := do_call2 st k in
              let '(ns, fin) := run_calls2 st' r in (nlen (s_log st') :: ns, fin)
  end.

Record case02b := { c2b_calls : list call2; c2b_expect : list N }.
Definition model_obs_c02b (c : case02b) : list N :=
  let '(ns, fin) := run_calls2 empty_state (c2b_calls c) in ns ++ canon_log (s_log fin).

Inductive case02x :=
| CStore (c : case02)
| CStore2 (c : case02b)
| CBytes (c : case_bytes)
| CPlan (c : case_plan).      (* what one auto / auto-schedule call planned vs the planner of Model/NoopPlan.v *)

(* zl: does the source count a zero-byte checkpoint sidecar as absent (Model/NoopPlan.v `seen`); the case
   files use check_case_c02g / model_obs_c02g of Gen/Effects.v, which pass the value read off the source *)
Definition model_obs_c02x_zl (zl : bool) (c : case02x) : list N :=
  match c with
  | CStore s => model_obs_c02 s
  | CStore2 s => model_obs_c02b s
  | CBytes b => model_obs_bytes b
  | CPlan c => model_obs_plan zl c
  end.
Definition check_case_c02x_zl (zl : bool) (c : case02x) : bool :=
  match c with
  | CStore s => check_case_c02 s
  | CStore2 s => lN_eqb (model_obs_c02b s) (c2b_expect s)
  | CBytes b => lN_eqb (model_obs_bytes b) (cb_expect b)
  | CPlan c => check_case_plan zl c
  end.
Definition model_obs_c02x := model_obs_c02x_zl false.
Definition check_case_c02x := check_case_c02x_zl false.
