(* C13 — path strings and the lexical resolvers of rip (executable definitions only; lemmas are in
   Proofs/PathsProofs.v).

   A path string is a list of Unicode code points (every path argument of rip is a Rust `String`;
   '/' and '.' are ASCII, so splitting code points on 47 is splitting the UTF-8 bytes on '/').
   Modelled from std::path (Unix) as rip uses it:
     Path::is_absolute, Path::components (ParentDir detection), PathBuf::join / push,
     Path::strip_prefix (component-wise match, remainder = Components::as_path: the raw text between
     the first and the last remaining real component), str::trim (Unicode White_Space);
   and from rip:
     resolve_path   rip-tools/src/builtins/mod.rs  and  ripd/src/tasks/logs.rs  (same text)
     parse_rel_path rip-workspace/src/patch.rs,  safe_join / to_relative  rip-workspace/src/lib.rs,
     files_for_invocation  rip-tools/src/runtime.rs  (what the auto-checkpoint derives from the raw
     `write` / `apply_patch` arguments).
   `walk` / `kresolve` say where the operating system lands when it is handed a path string and the
   process working directory (no symbolic links: `..` pops, '.' and '' are skipped). *)
From RipV Require Import Base.Prelude Base.Fs.

Definition str := list N.

(* ---------- std::path ---------- *)
Definition segs (p : str) : list str := split_on 47 p.
Definition is_absolute (p : str) : bool := starts_slash p.
Definition real_segs (p : str) : list str := filter (fun s => negb (seg_trivial s)) (segs p).
Definition has_parent (p : str) : bool := existsb seg_dotdot (segs p).

Fixpoint no_sep (p : str) : bool :=
  match p with
  | [] => true                (* PathBuf::push: no separator is inserted after an empty path *)
  | [c] => c =? 47
  | _ :: r => no_sep r
  end.

(* PathBuf::join *)
Definition join (a b : str) : str :=
  if is_absolute b then b else if no_sep a then a ++ b else a ++ 47 :: b.

Fixpoint join_segs (l : list str) : str :=
  match l with
  | [] => []
  | [s] => s
  | s :: r => s ++ 47 :: join_segs r
  end.

Fixpoint drop_trivial (l : list str) : list str :=
  match l with
  | [] => []
  | s :: r => if seg_trivial s then drop_trivial r else l
  end.
Definition trim_trivial (l : list str) : list str := rev (drop_trivial (rev (drop_trivial l))).

(* components: RootDir / leading CurDir, then one component per non-trivial segment *)
Inductive comp := CRoot | CCur | CParent | CNormal (s : str).
Definition comp_eqb (a b : comp) : bool :=
  match a, b with
  | CRoot, CRoot | CCur, CCur | CParent, CParent => true
  | CNormal x, CNormal y => lN_eqb x y
  | _, _ => false
  end.
Definition seg_comp (s : str) : comp := if seg_dotdot s then CParent else CNormal s.
Definition head_comp (p : str) : list comp :=
  if is_absolute p then [CRoot]
  else match segs p with s :: _ => if seg_dot s then [CCur] else [] | [] => [] end.
Definition body_comps (p : str) : list comp := map seg_comp (real_segs p).

(* consume the components of the base from the segments of the path *)
Fixpoint strip_body (sg : list str) (b : list comp) : option (list str) :=
  match b with
  | [] => Some sg
  | c :: b' =>
    match sg with
    | [] => None
    | s :: r =>
      if seg_trivial s then strip_body r b
      else if comp_eqb (seg_comp s) c then strip_body r b' else None
    end
  end.

(* Path::strip_prefix for a base with at least one component (an absolute root has RootDir) *)
Definition strip_prefix (base p : str) : option str :=
  if list_eqb comp_eqb (head_comp base) (head_comp p) then
    match strip_body (segs p) (body_comps base) with
    | Some rest => Some (join_segs (trim_trivial rest))
    | None => None
    end
  else None.

(* str::trim *)
Definition is_ws (c : N) : bool :=
  ((9 <=? c) && (c <=? 13)) || (c =? 32) || (c =? 133) || (c =? 160) || (c =? 5760)
  || ((8192 <=? c) && (c <=? 8202)) || (c =? 8232) || (c =? 8233) || (c =? 8239) || (c =? 8287) || (c =? 12288).
Fixpoint drop_ws (s : str) : str :=
  match s with
  | [] => []
  | c :: r => if is_ws c then drop_ws r else s
  end.
Definition trim (s : str) : str := rev (drop_ws (rev (drop_ws s))).

(* ---------- verdicts (shared with harness/src/bin/c13.rs) ---------- *)
Definition V_ABS : N := 1.       (* "absolute paths are not allowed" *)
Definition V_PARENT : N := 2.    (* "path escapes workspace root" *)
Definition V_EMPTY : N := 3.     (* "path cannot be empty" *)
Definition V_OUTSIDE : N := 4.   (* "path outside workspace" *)
Definition V_OTHER : N := 5.

(* ---------- the resolvers ---------- *)
(* builtins::resolve_path = tasks::logs::resolve_path = Workspace::safe_join *)
Definition resolve_tool (root raw : str) : res str :=
  if is_absolute raw then Err V_ABS
  else if has_parent raw then Err V_PARENT
  else Ok (join root raw).

(* patch.rs parse_rel_path *)
Definition parse_rel_path (raw : str) : res str :=
  let t := trim raw in
  match t with
  | [] => Err V_EMPTY
  | _ => if is_absolute t then Err V_ABS else if has_parent t then Err V_PARENT else Ok t
  end.

(* a patch header as the apply_patch tool uses it: parse, then Workspace::safe_join *)
Definition patch_target (root raw : str) : res str :=
  match parse_rel_path raw with
  | Ok t => resolve_tool root t
  | Err e => Err e
  end.

(* Workspace::to_relative before the repair (S10): `..` survives *)
Definition to_relative_unfixed (root raw : str) : res str :=
  match strip_prefix root (if is_absolute raw then raw else join root raw) with
  | Some rel => Ok rel
  | None => Err V_OUTSIDE
  end.

(* Workspace::to_relative (as repaired) *)
Definition to_relative (root raw : str) : res str :=
  match strip_prefix root (if is_absolute raw then raw else join root raw) with
  | Some rel => if has_parent rel then Err V_PARENT else Ok rel
  | None => Err V_OUTSIDE
  end.

(* files_for_invocation for `write` (as repaired): the tool's own two guards first *)
Definition auto_write_paths (raw : str) : res str :=
  if is_absolute raw then Err V_ABS else if has_parent raw then Err V_PARENT else Ok raw.
(* before the repair the raw argument went to the checkpoint store unchecked *)
Definition auto_write_paths_unfixed (raw : str) : res str := Ok raw.

(* ---------- the resolvers as step lists (tie T1: tools/gen/resolvers.py reads the lists from the source) ----------
   1 absolute guard, 2 ParentDir guard, 3 result root.join(x), 4 x := trim x, 5 empty guard, 6 result x,
   7 x := if absolute x then x else root.join(x), 8 x := strip_prefix root x or refuse *)
Fixpoint interp (steps : list N) (root x : str) : res str :=
  match steps with
  | [] => Ok x
  | 1 :: r => if is_absolute x then Err V_ABS else interp r root x
  | 2 :: r => if has_parent x then Err V_PARENT else interp r root x
  | 3 :: _ => Ok (join root x)
  | 4 :: r => interp r root (trim x)
  | 5 :: r => match x with [] => Err V_EMPTY | _ => interp r root x end
  | 6 :: _ => Ok x
  | 7 :: r => interp r root (if is_absolute x then x else join root x)
  | 8 :: r => match strip_prefix root x with Some y => interp r root y | None => Err V_OUTSIDE end
  | _ :: _ => Err V_OTHER
  end.

Definition expected_steps : list (N * list N) :=
  [(1, [1; 2; 3]); (2, [1; 2; 3]); (3, [1; 2; 3]); (4, [4; 5; 1; 2; 6]); (5, [7; 8; 2; 6]); (6, [1; 2; 6])].
(* create_checkpoint relativises every path and joins it to the root before it creates the store entry, probes
   and reads that joined path only; rewind sends every recorded path through safe_join before it joins it to the
   root; session and checkpoint ids are joined through store_component only; every path-taking tool resolves
   its argument before its first file-system / process use; no builtin module the extractor does not know *)
Definition expected_orders : list (N * list N) :=
  [(10, [1; 2; 3; 4; 5]); (11, [2; 1; 1]); (12, [1; 1; 1; 1]); (20, [1; 2]); (21, [1; 2]); (22, [1; 2]); (23, [1; 2]); (24, [1; 2]);
   (25, [1; 2]); (26, [1; 2]); (30, [1])].
Definition idl_eqb (a b : N * list N) : bool := (fst a =? fst b) && list_eqb N.eqb (snd a) (snd b).
Definition resolvers_wf (found : bool) (steps orders : list (N * list N)) : bool :=
  found && list_eqb idl_eqb steps expected_steps && list_eqb idl_eqb orders expected_orders.
Fixpoint steps_of (l : list (N * list N)) (id : N) : list N :=
  match l with [] => [] | (i, s) :: r => if i =? id then s else steps_of r id end.

(* ---------- where the operating system lands ---------- *)
Fixpoint walk (cur : list str) (sg : list str) : list str :=
  match sg with
  | [] => cur
  | s :: r =>
    if seg_trivial s then walk cur r
    else if seg_dotdot s then walk (removelast cur) r
    else walk (cur ++ [s]) r
  end.
Definition kresolve (cwd : list str) (p : str) : list str :=
  if is_absolute p then walk [] (segs p) else walk cwd (segs p).

Definition under (cwd : list str) (root p : str) : Prop :=
  exists below, kresolve cwd p = kresolve cwd root ++ below.
Definition underb (cwd : list str) (root p : str) : bool := is_prefix (kresolve cwd root) (kresolve cwd p).

(* what create_checkpoint hands to the OS for probing / reading a requested path, and what rewind
   hands to the OS for restoring it *)
Definition probe_path_unfixed (root raw : str) : str := raw.                 (* `path.exists()`, `fs::read(path)` *)
Definition probe_path (root rel : str) : str := join root rel.               (* repaired: `self.root.join(&rel)` *)
Definition restore_path (root rel : str) : str := join root rel.             (* rewind: `self.root.join(&file.path)` *)

(* ---------- what the tools do with a resolved path ----------
   Every file-system / process call of a path-taking tool takes a path DERIVED from the resolver's result p:
     0 the workspace root itself (a command without a cwd argument),  1 p,
     2 p.parent() -> create_dir_all (the chain of ancestors up to the first existing directory), reached only after a
       file-system check that p is not the root (`!dest.exists()`, a successful `fs::read` of the same file),
     12 the same without such a check (the write tool: guarded by its `file_name().is_none()` refusal instead),
     3 / 13 p.with_extension(tmp-<uuid>) (the atomic write's temporary file), guarded likewise,
     4 an entry of the directory walk started at p (p joined with any number of directory-entry names).
   tools/gen/resolvers.py reads the (operation, derivation) list of every tool from the source (tie T1): a call whose
   argument is anything else gets derivation 99 and the obligation fails. *)
(* Path::parent / file_name / file_stem / with_extension (Unix), for the ABSOLUTE paths rip hands them *)
Definition body_segs (p : str) : list str := match segs p with _ :: r => r | [] => [] end.
Definition parent (p : str) : option str :=
  match drop_trivial (rev (body_segs p)) with
  | _ :: br => Some (47 :: join_segs (rev (drop_trivial br)))
  | [] => None
  end.
Definition file_name (p : str) : option str :=
  match drop_trivial (rev (segs p)) with
  | s :: _ => if seg_dotdot s then None else Some s
  | [] => None
  end.
Fixpoint split_first (c : N) (acc s : list N) : option (list N * list N) :=
  match s with
  | [] => None
  | x :: r => if x =? c then Some (acc, r) else split_first c (x :: acc) r
  end.
(* file_stem: the name up to its LAST '.', the whole name when that dot is its first character *)
Definition stem (n : str) : str :=
  if seg_dotdot n then n
  else match split_first 46 [] (rev n) with
       | Some (_, before_rev) => match before_rev with [] => n | _ => rev before_rev end
       | None => n
       end.
(* Path::extension: what follows the last '.' of the file name (None for "..", for a name without a dot and for a
   name whose only dot is its first character) *)
Definition extension (p : str) : option str :=
  match file_name p with
  | Some n => match split_first 46 [] (rev n) with
              | Some (after, before_rev) => match before_rev with [] => None | _ => Some after end
              | None => None
              end
  | None => None
  end.
(* PathBuf::set_extension: truncate right after the stem of the file name, push '.' and the new extension; nothing
   happens to a path without a file name *)
Definition set_ext (q ext : str) : str :=
  match drop_trivial (rev (segs q)) with
  | s :: br => if seg_dotdot s then q else join_segs (rev br ++ [stem s ++ 46 :: ext])
  | [] => q
  end.
(* Path::with_extension as std implements it: the text of the path WITHOUT ITS LAST len(extension) BYTES (whatever
   they are: the extension itself when the path ends with its file name), then set_extension.  For a file name
   `..x` (x without a dot) the cut leaves `..` - a path without a file name - and the result is the PARENT directory:
   the atomic write of such a name tries to write its temporary file onto the directory above (always EISDIR). *)
Definition cut_ext (p : str) : str :=
  match extension p with
  | Some e => firstn (length p - length e) p
  | None => p
  end.
Definition with_extension (p ext : str) : str := set_ext (cut_ext p) ext.
(* a directory-entry name: no separator, not '', '.', '..' *)
Definition proper_name (n : str) : bool := negb (existsb (N.eqb 47) n) && negb (seg_trivial n) && negb (seg_dotdot n).
Definition descend (p : str) (names : list str) : str := fold_left join names p.

Definition nonroot (root p : str) : bool := negb (list_eqb lN_eqb (real_segs p) (real_segs root)).
(* fs::create_dir_all q: q, then its parent, ... up to the first one that exists *)
Fixpoint mkdir_chain (ex : str -> bool) (fuel : nat) (q : str) : list str :=
  match fuel with
  | O => [q]
  | S f => q :: (if ex q then [] else match parent q with Some q' => mkdir_chain ex f q' | None => [] end)
  end.
Definition parent_chain (ex : str -> bool) (p : str) : list str :=
  match parent p with Some q => mkdir_chain ex (length p) q | None => [] end.
Definition deriv_paths (ex : str -> bool) (root p ext : str) (names : list str) (d : N) : list str :=
  match d with
  | 0 => [root]
  | 1 => [p]
  | 2 => if nonroot root p then parent_chain ex p else []
  | 12 => parent_chain ex p
  | 3 => if nonroot root p then [with_extension p ext] else []
  | 13 => [with_extension p ext]
  | 4 => [descend p names]
  | _ => [[]]      (* an argument that is not derived from the resolver's result: the process working directory *)
  end.

Inductive tool := TRead | TWrite | TLs | TGrep | TCwd | TCwdDefault | TPatchAdd | TPatchDelete | TPatchUpdate | TPatchMoveTo
                | TPatchRevert | TCkptCreate | TRewind.
Definition tool_id (t : tool) : N :=
  match t with TRead => 20 | TWrite => 21 | TLs => 22 | TGrep => 23 | TCwd => 24 | TCwdDefault => 27 | TPatchAdd => 40
             | TPatchDelete => 41 | TPatchUpdate => 42 | TPatchMoveTo => 43 | TCkptCreate => 44 | TRewind => 45
             | TPatchRevert => 46 end.
(* operations: 1 open/read, 2 stat (exists / is_dir), 3 create_dir_all, 4 write (create or truncate), 5 append,
   6 remove_file, 7 rename (either side), 8 directory walk, 9 chdir of the child process, 10 remove empty directories *)
(* 24/27 bash tool with / without a cwd argument, 25/28 pipes task, 26/29 pty task; 40-43 the four patch headers
   (record_undo included), 46 apply_patch's undo (revert_paths) on a path it resolved before; 44 checkpoint create
   (the source side; the store copy is c13_checkpoint_store_copy_confined), 45 rewind (snapshot, restore, undo) *)
Definition expected_progs : list (N * list (N * N)) :=
  [(20, [(1, 1)]);
   (21, [(3, 12); (5, 1); (4, 13); (2, 1); (6, 1); (6, 13); (7, 13); (7, 1); (6, 13); (4, 1)]);
   (22, [(8, 1)]);
   (23, [(8, 1); (1, 4)]);
   (24, [(9, 1)]); (25, [(9, 1)]); (26, [(9, 1)]);
   (27, [(9, 0)]); (28, [(9, 0)]); (29, [(9, 0)]);
   (40, [(2, 1); (2, 1); (1, 1); (3, 2); (4, 1)]);
   (41, [(2, 1); (2, 1); (1, 1); (6, 1)]);
   (42, [(2, 1); (2, 1); (1, 1); (1, 1); (4, 1)]);
   (43, [(2, 1); (2, 1); (1, 1); (3, 2); (7, 1); (7, 1)]);
   (44, [(2, 1); (1, 1)]);
   (45, [(2, 1); (1, 1); (3, 2); (4, 1); (2, 1); (6, 1); (3, 2); (4, 1); (6, 1)]);
   (46, [(2, 1); (10, 4); (3, 2); (4, 1); (6, 1)])].
Definition op_eqb (a b : N * N) : bool := (fst a =? fst b) && (snd a =? snd b).
Definition prog_eqb (a b : N * list (N * N)) : bool := (fst a =? fst b) && list_eqb op_eqb (snd a) (snd b).
Definition tools_wf (found : bool) (progs : list (N * list (N * N))) : bool :=
  found && list_eqb prog_eqb progs expected_progs.
Fixpoint prog_of (l : list (N * list (N * N))) (id : N) : list (N * N) :=
  match l with [] => [] | (i, s) :: r => if i =? id then s else prog_of r id end.

Definition V_NOFILE : N := 6.   (* "path must name a file" *)
Definition tool_path (t : tool) (root raw : str) : res str :=
  match t with
  | TRead | TWrite | TLs | TGrep | TCwd | TRewind => resolve_tool root raw
  | TCwdDefault => Ok root
  | TPatchAdd | TPatchDelete | TPatchUpdate | TPatchMoveTo | TPatchRevert => patch_target root raw
  | TCkptCreate => match to_relative root raw with Ok rel => Ok (join root rel) | Err e => Err e end
  end.
Definition tool_refuses_dir (t : tool) (raw : str) : bool :=
  match t with TWrite => match file_name raw with None => true | Some _ => false end | _ => false end.
(* verdict and the (operation, path) accesses of one tool call *)
Definition tool_run (progs : list (N * list (N * N))) (t : tool) (ex : str -> bool) (root raw ext : str) (names : list str)
  : N * list (N * str) :=
  match tool_path t root raw with
  | Err e => (e, [])
  | Ok p =>
    if tool_refuses_dir t raw then (V_NOFILE, [])
    else (0, flat_map (fun od => map (fun q => (fst od, q)) (deriv_paths ex root p ext names (snd od))) (prog_of progs (tool_id t)))
  end.
(* the write tool before 0a47111: no refusal of a path without a file name *)
Definition tool_run_unguarded (progs : list (N * list (N * N))) (t : tool) (ex : str -> bool) (root raw ext : str) (names : list str)
  : N * list (N * str) :=
  match tool_path t root raw with
  | Err e => (e, [])
  | Ok p => (0, flat_map (fun od => map (fun q => (fst od, q)) (deriv_paths ex root p ext names (snd od))) (prog_of progs (tool_id t)))
  end.

(* ---------- correspondence (harness/src/bin/c13.rs) ---------- *)
Record case := {
  c_kind : N;            (* 0 file tool / bash cwd, 1 patch header, 2 apply_patch tool, 3 checkpoint create,
                            4 auto-checkpoint of write, 5 auto-checkpoint of apply_patch, 6 rewind id, 7 task cwd,
                            8 bash / task without a cwd argument, 10 a recorded path read back by rewind,
                            11 Path::parent / with_extension of root.join(raw), Path::file_name of raw *)
  c_root : str;
  c_raw : str;
  c_verdict : N;
  c_out : str;           (* parsed path (1), relativised path (3,4,5), resolved path (7) *)
  c_has_eff : bool;
  c_eff : list str       (* components below the root where the effect was observed *)
}.

Definition verdict_of {A} (r : res A) : N := match r with Ok _ => 0 | Err e => e end.
Definition str_eqb : str -> str -> bool := lN_eqb.
Definition lstr_eqb : list str -> list str -> bool := list_eqb lN_eqb.

Definition eff_ok (c : case) (r : res str) : bool :=
  if c_has_eff c then
    match r with
    | Ok p => lstr_eqb (kresolve [] p) (kresolve [] (c_root c) ++ c_eff c)
    | Err _ => false
    end
  else true.
Definition out_ok (c : case) (r : res str) : bool :=
  match r with Ok p => str_eqb p (c_out c) | Err _ => match c_out c with [] => true | _ => false end end.
Definition out_ok_if_any (c : case) (r : res str) : bool :=
  match c_out c with [] => true | _ => out_ok c r end.

Definition model_result (c : case) : res str :=
  match c_kind c with
  | 0 | 7 => resolve_tool (c_root c) (c_raw c)
  | 1 => parse_rel_path (c_raw c)
  | 2 => patch_target (c_root c) (c_raw c)
  | 3 => to_relative (c_root c) (c_raw c)
  | 4 => match auto_write_paths (c_raw c) with Ok p => to_relative (c_root c) p | Err e => Err e end
  | 5 => match parse_rel_path (c_raw c) with Ok p => to_relative (c_root c) p | Err e => Err e end
  | 8 => Ok (c_root c)
  | 10 => resolve_tool (c_root c) (c_raw c)
  | 11 => Ok (join (c_root c) (c_raw c))
  | _ => Err V_OTHER
  end.
(* the tool that runs after the auto-checkpoint *)
Definition model_tool (c : case) : res str :=
  match c_kind c with
  | 4 => resolve_tool (c_root c) (c_raw c)
  | 5 => patch_target (c_root c) (c_raw c)
  | _ => model_result c
  end.
Definition model_verdict (c : case) : N :=
  match c_kind c with
  | 4 | 5 => 10 * verdict_of (model_result c) + verdict_of (model_tool c)
  | _ => verdict_of (model_result c)
  end.

Definition ext_x : str := [116; 109; 112; 45; 88].    (* "tmp-X" *)
Definition enc_opt (o : option str) : str := match o with Some x => x | None => [] end.
Definition std_obs (c : case) : list str :=
  let p := join (c_root c) (c_raw c) in [enc_opt (parent p); with_extension p ext_x; enc_opt (file_name (c_raw c))].

Definition check_case (c : case) : bool :=
  (model_verdict c =? c_verdict c) &&
  match c_kind c with
  | 0 | 2 | 8 => eff_ok c (model_result c)
  | 11 => lstr_eqb (std_obs c) (c_eff c)
  | 1 | 7 => out_ok c (model_result c)
  | 3 => out_ok_if_any c (model_result c)
  | 4 | 5 => out_ok_if_any c (model_result c) && eff_ok c (model_tool c)
  | _ => true
  end.

Definition model_obs (c : case) : list N :=
  model_verdict c :: match model_result c with Ok p => 1 :: nlen p :: p | Err _ => [0] end
  ++ match model_tool c with Ok p => nlen (kresolve [] p) :: concat (kresolve [] p) | Err _ => [] end.
