#!/bin/sh
# Regenerate _CoqProject + Makefile from the files present, then build the given targets (default: all).
# Usage: coq/mk.sh [targets...]      (run under flock by ./check)
set -e
cd "$(dirname "$0")"
{ echo "-Q . RipV"; echo "-arg -w -arg -notation-overridden,-deprecated-hint-without-locality,-deprecated-instance-without-locality"; find Base Model Gen Proofs Props -name '*.v' | sort; } > _CoqProject.new
if ! cmp -s _CoqProject.new _CoqProject; then mv _CoqProject.new _CoqProject; coq_makefile -f _CoqProject -o Makefile.coq >/dev/null; else rm _CoqProject.new; fi
[ -f Makefile.coq ] || coq_makefile -f _CoqProject -o Makefile.coq >/dev/null
# every coqc call is bounded (a runaway conversion or sauto must not stall a check)
exec make -f Makefile.coq -j"${COQ_JOBS:-16}" COQC="timeout ${COQ_FILE_TIMEOUT:-1200} coqc" "$@"
